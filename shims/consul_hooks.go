//go:build verif

// verif:target agent/consul
package consul

import (
	"context"
	"sync"

	"github.com/hashicorp/consul/agent/structs"
)

// VerifHooks lets the simulator stand in for Raft and for server-to-server RPC
// on a partially constructed *Server ("server shell"). Only compiled with the
// verif tag; consulted by the guarded lines the build step inserts at the top
// of (*Server).raftApplyEncoded and (*Server).RPC.
type VerifHooks struct {
	RaftApply func(t structs.MessageType, buf []byte) (any, error)
	RPC       func(ctx context.Context, method string, args, reply interface{}) error
	IsLeader  func() bool
}

var verifHooks sync.Map // *Server -> *VerifHooks

func verifHooksFor(s *Server) *VerifHooks {
	if v, ok := verifHooks.Load(s); ok {
		return v.(*VerifHooks)
	}
	return nil
}

func VerifSetHooks(s *Server, h *VerifHooks) {
	if h == nil {
		verifHooks.Delete(s)
		return
	}
	verifHooks.Store(s, h)
}
