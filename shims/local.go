//go:build verif

// verif:target agent/local
package local

import "github.com/hashicorp/consul/agent/structs"

// VerifEntry is the sync bookkeeping of one local entry, including entries that are only
// kept as deletion markers.
type VerifEntry struct {
	InSync  bool
	Deleted bool
	Service *structs.NodeService
	Check   *structs.HealthCheck
	// Deferred: an output-only update of the check is waiting for its delayed write-back
	Deferred bool
}

// VerifDump returns the raw bookkeeping tables of the local state.
func VerifDump(l *State) (services map[string]VerifEntry, checks map[string]VerifEntry, nodeInfoInSync bool) {
	l.RLock()
	defer l.RUnlock()
	services, checks = map[string]VerifEntry{}, map[string]VerifEntry{}
	for id, s := range l.services {
		services[id.ID] = VerifEntry{InSync: s.InSync, Deleted: s.Deleted, Service: s.Service}
	}
	for id, c := range l.checks {
		checks[string(id.ID)] = VerifEntry{InSync: c.InSync, Deleted: c.Deleted, Check: c.Check, Deferred: c.DeferCheck != nil}
	}
	return services, checks, l.nodeInfoInSync
}
