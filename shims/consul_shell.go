//go:build verif

// verif:target agent/consul
package consul

import (
	"context"
	"fmt"
	"time"

	"github.com/hashicorp/go-hclog"
	"github.com/hashicorp/go-metrics"

	"github.com/hashicorp/consul/acl"
	"github.com/hashicorp/consul/acl/resolver"
	"github.com/hashicorp/consul/agent/blockingquery"
	"github.com/hashicorp/consul/agent/consul/fsm"
	"github.com/hashicorp/consul/agent/consul/state"
	"github.com/hashicorp/consul/agent/rpc/middleware"
	"github.com/hashicorp/consul/agent/structs"
	"github.com/hashicorp/consul/agent/token"
	"github.com/hashicorp/consul/api"
	"github.com/hashicorp/consul/logging"
)

// VerifNewShell builds a *Server with only the fields populated that the leader
// duties and pre-apply code exercised by the simulator touch. Appending to Raft
// and server-to-server RPC go through VerifHooks.
func VerifNewShell(cfg *Config, f *fsm.FSM, gc *state.TombstoneGC, h *VerifHooks) *Server {
	if cfg == nil {
		cfg = DefaultConfig()
		cfg.Datacenter = "dc1"
		cfg.PrimaryDatacenter = "dc1"
		cfg.NodeName = "sim-leader"
	}
	logger := hclog.NewInterceptLogger(&hclog.LoggerOptions{Level: hclog.Off})
	s := &Server{
		config:        cfg,
		fsm:           f,
		tombstoneGC:   gc,
		logger:        logger,
		loggers:       newLoggerStore(logger),
		tokens:        new(token.Store),
		sessionTimers: NewSessionTimers(),
	}
	s.rpcRecorder = middleware.NewRequestRecorder(logger, func() bool { return true }, cfg.Datacenter)
	s.rpcRecorder.RecorderFunc = func([]string, float32, []metrics.Label) {}
	VerifSetHooks(s, h)
	return s
}

func verifAllowAll() resolver.Result { return resolver.Result{Authorizer: acl.ManageAll()} }

// VerifKVSPreApply runs the real leader-side KV pre-apply (lock-delay verdict).
func VerifKVSPreApply(s *Server, op api.KVOp, d *structs.DirEntry) (bool, error) {
	return kvsPreApply(s.logger, s, verifAllowAll(), op, d)
}

// VerifTxnPreCheck runs the real Txn endpoint pre-check.
func VerifTxnPreCheck(s *Server, ops structs.TxnOps) structs.TxnErrors {
	t := &Txn{srv: s, logger: s.logger}
	return t.preCheck(verifAllowAll(), ops)
}

// VerifRegisterPreApply mirrors the validation part of Catalog.Register.
func VerifRegisterPreApply(args *structs.RegisterRequest) error {
	if err := nodePreApply(args.Node, string(args.ID)); err != nil {
		return err
	}
	if args.Service != nil {
		if err := servicePreApplyValidate(args.Service); err != nil {
			return err
		}
	}
	if args.Check != nil {
		args.Checks = append(args.Checks, args.Check)
		args.Check = nil
	}
	for _, check := range args.Checks {
		if check.Node == "" {
			check.Node = args.Node
		}
		checkPreApply(check)
		if check.Type == "" {
			chkType := check.CheckType()
			check.Type = chkType.Type()
		}
	}
	return nil
}

func VerifRaftApply(s *Server, t structs.MessageType, msg interface{}) (interface{}, error) {
	return s.raftApply(t, msg)
}

func VerifReapTombstones(s *Server, index uint64) { s.reapTombstones(index) }

func VerifResetSessionTimer(s *Server, sess *structs.Session) error { return s.resetSessionTimer(sess) }
func VerifClearSessionTimer(s *Server, id string) error             { return s.clearSessionTimer(id) }
func VerifClearAllSessionTimers(s *Server)                          { s.clearAllSessionTimers() }
func VerifInitializeSessionTimers(s *Server) error                  { return s.initializeSessionTimers() }
func VerifSessionTimerCount(s *Server) int                          { return s.sessionTimers.Len() }

// VerifSetQueryMeta runs the real (*Server).SetQueryMeta (index forced >= 1 etc.).
func VerifSetQueryMeta(s *Server, m blockingquery.ResponseMeta, token string) {
	s.SetQueryMeta(m, token)
}

// ---- federation (C19): the real replication loops of a secondary datacenter's leader

// VerifShellConfig is DefaultConfig for a server shell of datacenter dc.
func VerifShellConfig(dc, primary string) *Config {
	cfg := DefaultConfig()
	cfg.Datacenter = dc
	cfg.PrimaryDatacenter = primary
	cfg.NodeName = "sim-leader-" + dc
	cfg.ACLsEnabled = true
	cfg.ACLTokenReplication = true
	return cfg
}

func VerifSetReplicationToken(s *Server, tok string) {
	s.tokens.UpdateReplicationToken(tok, token.TokenSourceConfig)
}

// VerifRunReplicator runs one of the leader's replication routines until ctx is cancelled:
// "policies", "roles", "tokens" (runACLReplicator as started by startACLReplication) or
// "config" (the Replicator built exactly as NewServer builds configReplicator).
func VerifRunReplicator(ctx context.Context, s *Server, what string) error {
	switch what {
	case "policies":
		return s.runACLPolicyReplicator(ctx)
	case "roles":
		return s.runACLRoleReplicator(ctx)
	case "tokens":
		return s.runACLTokenReplicator(ctx)
	case "config":
		r, err := NewReplicator(&ReplicatorConfig{
			Name:     logging.ConfigEntry,
			Delegate: &FunctionReplicator{ReplicateFn: s.replicateConfig, Name: "config-entries"},
			Rate:     s.config.ConfigReplicationRate,
			Burst:    s.config.ConfigReplicationBurst,
			Logger:   s.logger,
		})
		if err != nil {
			return err
		}
		return r.Run(ctx)
	}
	return fmt.Errorf("unknown replicator %q", what)
}

// VerifServeReads prepares the shell for running real read endpoints: the token resolver of a
// server with ACLs disabled, and a shutdown channel that releases parked blocking queries.
func VerifServeReads(s *Server) error {
	if s.shutdownCh == nil {
		s.shutdownCh = make(chan struct{})
	}
	if s.ACLResolver != nil {
		return nil // (a world that enabled ACLs on the shell: its resolver stays)
	}
	settings := ACLResolverSettings{ACLsEnabled: false, Datacenter: s.config.Datacenter, NodeName: s.config.NodeName,
		ACLPolicyTTL: 30 * time.Second, ACLTokenTTL: 30 * time.Second, ACLRoleTTL: 30 * time.Second, ACLDownPolicy: "extend-cache", ACLDefaultPolicy: "allow"}
	s.aclConfig = newACLConfig(serverPartitionInfo(s), s.logger)
	r, err := NewACLResolver(&ACLResolverConfig{Config: settings, Backend: &serverACLResolverBackend{Server: s},
		CacheConfig: serverACLCacheConfig, Logger: s.logger, ACLConfig: s.aclConfig, Tokens: s.tokens})
	if err != nil {
		return err
	}
	s.ACLResolver = r
	s.config.ConnectEnabled = true // intention and CA read endpoints refuse to answer otherwise
	if s.shutdownCh == nil {
		s.shutdownCh = make(chan struct{})
	}
	return nil
}

// VerifStopReads releases the blocking queries parked on the shell.
func VerifStopReads(s *Server) {
	if s.shutdownCh != nil {
		select {
		case <-s.shutdownCh:
		default:
			close(s.shutdownCh)
		}
	}
}

// VerifKVSGet runs the real KVS.Get endpoint (blocking when MinQueryIndex is set).
func VerifKVSGet(s *Server, args *structs.KeyRequest, reply *structs.IndexedDirEntries) error {
	k := &KVS{srv: s, logger: s.logger}
	return k.Get(args, reply)
}
