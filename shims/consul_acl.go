//go:build verif

// verif:target agent/consul
package consul

import (
	"context"
	"fmt"
	"time"

	"github.com/hashicorp/go-hclog"

	"github.com/hashicorp/consul/acl"
	"github.com/hashicorp/consul/agent/structs"
	"github.com/hashicorp/consul/agent/token"
)

// VerifEnableACLs gives the shell the ACL resolver NewServer builds (server cache sizes,
// serverACLResolverBackend over the shell's own state store).
func VerifEnableACLs(s *Server, settings ACLResolverSettings) error {
	s.config.ACLsEnabled = true
	s.config.ACLResolverSettings = settings
	s.aclConfig = newACLConfig(serverPartitionInfo(s), s.logger)
	r, err := NewACLResolver(&ACLResolverConfig{
		Config:      settings,
		Backend:     &serverACLResolverBackend{Server: s},
		CacheConfig: serverACLCacheConfig,
		Logger:      s.logger,
		ACLConfig:   s.aclConfig,
		Tokens:      s.tokens,
	})
	if err != nil {
		return err
	}
	s.ACLResolver = r
	return nil
}

// VerifACLEndpoint is what ACL.TokenRead (by secret), ACL.PolicyResolve and ACL.RoleResolve do on
// the server that finally handles them (the part of the endpoints after forwarding).
func VerifACLEndpoint(s *Server, method string, args, reply interface{}) error {
	switch method {
	case "ACL.TokenRead":
		a, r := args.(*structs.ACLTokenGetRequest), reply.(*structs.ACLTokenResponse)
		if a.TokenIDType != structs.ACLTokenSecret {
			return fmt.Errorf("only reads by secret are served")
		}
		index, tok, err := s.fsm.State().ACLTokenGetBySecret(nil, a.TokenID, nil)
		if err != nil {
			return err
		}
		if tok != nil && tok.IsExpired(time.Now()) {
			return fmt.Errorf("token has expired: %w", acl.ErrNotFound)
		} else if tok == nil {
			return fmt.Errorf("token does not exist: %w", acl.ErrNotFound)
		}
		r.Index, r.Token = index, tok
		r.SourceDatacenter = a.Datacenter
		return nil
	case "ACL.PolicyResolve":
		a, r := args.(*structs.ACLPolicyBatchGetRequest), reply.(*structs.ACLPolicyBatchResponse)
		identity, policies, err := s.ACLResolver.resolveTokenToIdentityAndPolicies(a.Token)
		if err != nil {
			return err
		}
		idMap := make(map[string]*structs.ACLPolicy)
		for _, policyID := range identity.PolicyIDs() {
			idMap[policyID] = nil
		}
		for _, policy := range policies {
			idMap[policy.ID] = policy
		}
		for _, policyID := range a.PolicyIDs {
			if policy, ok := idMap[policyID]; ok {
				if policy != nil {
					r.Policies = append(r.Policies, policy)
				}
			} else {
				return acl.ErrPermissionDenied
			}
		}
		return nil
	case "ACL.RoleResolve":
		a, r := args.(*structs.ACLRoleBatchGetRequest), reply.(*structs.ACLRoleBatchResponse)
		identity, roles, err := s.ACLResolver.resolveTokenToIdentityAndRoles(a.Token)
		if err != nil {
			return err
		}
		idMap := make(map[string]*structs.ACLRole)
		for _, roleID := range identity.RoleIDs() {
			idMap[roleID] = nil
		}
		for _, role := range roles {
			idMap[role.ID] = role
		}
		for _, roleID := range a.RoleIDs {
			if role, ok := idMap[roleID]; ok {
				if role != nil {
					r.Roles = append(r.Roles, role)
				}
			} else {
				return acl.ErrPermissionDenied
			}
		}
		return nil
	}
	return fmt.Errorf("endpoint %s is not served", method)
}

type verifClientBackend struct {
	dc  string
	rpc func(ctx context.Context, method string, args, reply interface{}) error
}

func (b *verifClientBackend) ACLDatacenter() string { return b.dc }
func (b *verifClientBackend) ResolveIdentityFromToken(string) (bool, structs.ACLIdentity, error) {
	return false, nil, nil
}
func (b *verifClientBackend) ResolvePolicyFromID(string) (bool, *structs.ACLPolicy, error) {
	return false, nil, nil
}
func (b *verifClientBackend) ResolveRoleFromID(string) (bool, *structs.ACLRole, error) {
	return false, nil, nil
}
func (b *verifClientBackend) IsServerManagementToken(string) bool { return false }
func (b *verifClientBackend) RPC(ctx context.Context, method string, args, reply interface{}) error {
	return b.rpc(ctx, method, args, reply)
}

// VerifNewClientResolver is the resolver a client agent builds (NewClient): nothing resolves
// locally, everything goes through rpc and the client-sized caches.
func VerifNewClientResolver(settings ACLResolverSettings, rpc func(ctx context.Context, method string, args, reply interface{}) error) (*ACLResolver, error) {
	logger := hclog.New(&hclog.LoggerOptions{Level: hclog.Off})
	return NewACLResolver(&ACLResolverConfig{
		Config:          settings,
		Backend:         &verifClientBackend{dc: settings.Datacenter, rpc: rpc},
		DisableDuration: aclClientDisabledTTL,
		Logger:          logger,
		CacheConfig:     clientACLCacheConfig,
		ACLConfig:       newACLConfig(&partitionInfoNoop{}, logger),
		Tokens:          new(token.Store),
	})
}

// VerifACLPolicySet runs the real ACL.PolicySet endpoint on the shell (the shell is the leader of the
// primary datacenter, so nothing is forwarded; the write goes through raftApply like every other).
func VerifACLPolicySet(s *Server, args *structs.ACLPolicySetRequest, reply *structs.ACLPolicy) error {
	a := &ACL{srv: s, logger: s.logger}
	return a.PolicySet(args, reply)
}
