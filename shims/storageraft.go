//go:build verif

// verif:target internal/storage/raft
package raft

import "github.com/hashicorp/consul/internal/storage/inmem"

// VerifStore exposes the backend's in-memory store to the simulator.
func (b *Backend) VerifStore() *inmem.Store { return b.store }
