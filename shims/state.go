//go:build verif

// verif:target agent/consul/state
package state

var verifDefaultWatchLimit = watchLimit

// VerifSetWatchLimit sets the package's watch limit (number of fine-grained
// watch channels after which queries fall back to a coarse table watch);
// n <= 0 restores the default.
func VerifSetWatchLimit(n int) {
	if n <= 0 {
		watchLimit = verifDefaultWatchLimit
		return
	}
	watchLimit = n
}
