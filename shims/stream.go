//go:build verif

// verif:target agent/consul/stream
package stream

// VerifDrainOne publishes exactly one queued batch (what one iteration of
// EventPublisher.Run does) and reports whether there was one. With Run not
// started, the hand-off from commit to topic buffers becomes a scheduling
// decision of the simulator.
func (e *EventPublisher) VerifDrainOne() bool {
	select {
	case update := <-e.publishCh:
		e.handleUpdate(update)
		return true
	default:
		return false
	}
}

// VerifPending is the number of committed-but-unpublished batches.
func (e *EventPublisher) VerifPending() int { return len(e.publishCh) }

// VerifCloseAll is what Run does when its context ends.
func (e *EventPublisher) VerifCloseAll() { e.subscriptions.closeAll() }
