//go:build verif

// verif:target agent/consul
package consul

import (
	"fmt"
	"reflect"
	"strings"
)

// VerifRead runs a real read endpoint of the server shell by its RPC name ("Catalog.ListNodes"):
// request forwarding decision, token resolution, the server's own blockingQuery, ACL filtering,
// bexpr filtering, sorting and SetQueryMeta all run as in production. VerifServeReads must have
// been called on the shell. args and reply are the endpoint's own pointer types.
func VerifRead(s *Server, method string, args, reply any) (err error) {
	parts := strings.SplitN(method, ".", 2)
	if len(parts) != 2 {
		return fmt.Errorf("bad method %q", method)
	}
	var ep any
	switch parts[0] {
	case "KVS":
		ep = &KVS{srv: s, logger: s.logger}
	case "Session":
		ep = &Session{srv: s, logger: s.logger}
	case "Catalog":
		ep = &Catalog{srv: s, logger: s.logger}
	case "Health":
		ep = &Health{srv: s, logger: s.logger}
	case "Internal":
		ep = &Internal{srv: s, logger: s.logger}
	case "ConfigEntry":
		ep = &ConfigEntry{srv: s, logger: s.logger}
	case "Intention":
		ep = &Intention{srv: s, logger: s.logger}
	case "Coordinate":
		ep = &Coordinate{srv: s, logger: s.logger}
	case "PreparedQuery":
		ep = &PreparedQuery{srv: s, logger: s.logger}
	case "ConnectCA":
		ep = &ConnectCA{srv: s, logger: s.logger}
	case "FederationState":
		ep = &FederationState{srv: s}
	case "DiscoveryChain":
		ep = &DiscoveryChain{srv: s}
	default:
		return fmt.Errorf("unknown endpoint %q", parts[0])
	}
	m := reflect.ValueOf(ep).MethodByName(parts[1])
	if !m.IsValid() {
		return fmt.Errorf("unknown method %q", method)
	}
	out := m.Call([]reflect.Value{reflect.ValueOf(args), reflect.ValueOf(reply)})
	if e, ok := out[0].Interface().(error); ok && e != nil {
		return e
	}
	return nil
}
