//go:build verif

// verif:target agent/ae
package ae

import "time"

// VerifSetStagger replaces the random stagger source of the state syncer (the
// package already routes it through a variable for its own tests).
func VerifSetStagger(f func(time.Duration) time.Duration) { libRandomStagger = f }
