//go:build verif

// verif:target agent/consul
package consul

import (
	"crypto/x509"

	"github.com/hashicorp/consul/acl"
	"github.com/hashicorp/consul/agent/structs"
)

// VerifNewCAManager gives the shell the CA manager NewServer builds (the real delegate over the
// shell: state store, Raft applies through the shell's hook).
func VerifNewCAManager(s *Server) *CAManager {
	s.config.ConnectEnabled = true
	s.caManager = NewCAManager(&caDelegateWithState{Server: s}, nil, s.logger.ResetNamed("connect.ca"), s.config)
	return s.caManager
}

// What establishLeadership does with it, and the two entry points the endpoints use.
func VerifCAInitialize(m *CAManager) error { return m.Initialize() }
func VerifCAUpdateConfiguration(m *CAManager, args *structs.CARequest) error {
	return m.UpdateConfiguration(args)
}
func VerifCASign(m *CAManager, csr *x509.CertificateRequest, authz acl.Authorizer) (*structs.IssuedCert, error) {
	return m.AuthorizeAndSignCertificate(csr, authz)
}
