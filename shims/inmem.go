//go:build verif

// verif:target internal/storage/inmem
package inmem

import "sync"

// VerifDrainOne publishes exactly one queued event batch of the store's private
// publisher (Store.Run is not started in step mode).
func (s *Store) VerifDrainOne() bool { return s.pub.VerifDrainOne() }

// VerifPending is the number of committed-but-unpublished event batches.
func (s *Store) VerifPending() int { return s.pub.VerifPending() }

// VerifCloseAll ends every watch (what Run does when its context ends).
func (s *Store) VerifCloseAll() { s.pub.VerifCloseAll() }

// VerifYield, when a world installs it, is called at the yield points of the
// store's mutating operations (inserted by bin/vbuild.py): after the memdb
// commit and before the event is handed to the publisher, and while waiting for
// eventLock. The function parks the calling goroutine until the simulator's
// scheduler resumes it, so the scheduler decides every interleaving of
// concurrent operations at those points.
var VerifYield func(point string)

func verifYield(point string) {
	if f := VerifYield; f != nil {
		f(point)
	}
}

// verifLock takes mu. Under the simulator a goroutine never blocks inside the
// mutex (the scheduler could not see that): it parks at the "lock-wait" yield
// point and tries again when it is resumed.
func verifLock(mu *sync.Mutex) {
	if VerifYield == nil {
		mu.Lock()
		return
	}
	for !mu.TryLock() {
		VerifYield("lock-wait")
	}
}
