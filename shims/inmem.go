//go:build verif

// verif:target internal/storage/inmem
package inmem

// VerifDrainOne publishes exactly one queued event batch of the store's private
// publisher (Store.Run is not started in step mode).
func (s *Store) VerifDrainOne() bool { return s.pub.VerifDrainOne() }

// VerifPending is the number of committed-but-unpublished event batches.
func (s *Store) VerifPending() int { return s.pub.VerifPending() }

// VerifCloseAll ends every watch (what Run does when its context ends).
func (s *Store) VerifCloseAll() { s.pub.VerifCloseAll() }
