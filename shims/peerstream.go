//go:build verif

// verif:target agent/grpc-external/services/peerstream
package peerstream

import (
	"time"

	"github.com/hashicorp/consul/agent/cache"
	"github.com/hashicorp/consul/agent/structs"
	"github.com/hashicorp/consul/proto/private/pbpeerstream"
	"github.com/hashicorp/consul/proto/private/pbservice"
)

// VerifProcessResponse hands one replication message received from a peer to the
// importing side's handler (what the stream's receive loop does).
func VerifProcessResponse(s *Server, peerName, partition string, st *MutableStatus, resp *pbpeerstream.ReplicationMessage_Response) (*pbpeerstream.ReplicationMessage, error) {
	return s.processResponse(peerName, partition, st, resp)
}

func VerifNewStatus() *MutableStatus { return newMutableStatus(time.Now, true) }

// VerifServiceResponse builds the message the exporting side sends for one service
// from the instances its catalog holds.
func VerifServiceResponse(name string, csn structs.CheckServiceNodes) (*pbpeerstream.ReplicationMessage_Response, error) {
	out := &pbservice.IndexedCheckServiceNodes{}
	for i := range csn {
		out.Nodes = append(out.Nodes, pbservice.NewCheckServiceNodeFromStructs(&csn[i]))
	}
	return makeServiceResponse(cache.UpdateEvent{CorrelationID: subExportedService + name, Result: out})
}

// VerifExportedListResponse builds the exported-service-list message.
func VerifExportedListResponse(st *MutableStatus, list *structs.ExportedServiceList) (*pbpeerstream.ReplicationMessage_Response, error) {
	return makeExportedServiceListResponse(st, cache.UpdateEvent{CorrelationID: subExportedServiceList, Result: pbpeerstream.ExportedServiceListFromStruct(list)})
}
