//go:build verif

package fsmworld

import (
	"fmt"
	"reflect"
	"sort"
	"strconv"
	"strings"

	"github.com/hashicorp/go-memdb"

	"github.com/hashicorp/consul/agent/consul/discoverychain"
	"github.com/hashicorp/consul/agent/consul/state"
	"github.com/hashicorp/consul/agent/structs"
	"github.com/hashicorp/consul/internal/verifsim/simkit"
)

// Query is one read endpoint instantiated on concrete arguments. Run returns
// the query index and the result exactly as the RPC endpoint would get them
// from the store (the endpoint layer itself - ACL filtering, SetQueryMeta - is
// not part of W1; the "index never zero" rule of rpc.go is applied by the
// caller where it matters).
type Query struct {
	Name  string
	Group string // family, for statistics and known-finding signatures
	// UsageMetric marks queries over the usage table, whose index is by design
	// re-derived on restore (see DESIGN.md C02).
	UsageMetric bool
	// Unordered marks results that are sets built from a Go map (no order promised).
	Unordered bool
	// DeepUnordered: nested lists are assembled from maps as well (service topology).
	DeepUnordered bool
	// Key: for KVSGet, the key (such a read can be served by the real KVS.Get endpoint).
	Key string
	// Single: a read of one item; its endpoint answers blockingquery.ErrNotFound when there is none.
	Single bool
	// NoIndex: the store method reports no query index (the wrapper returns a constant).
	NoIndex bool
	// NoWatch: the store method takes no watch set (not a blocking endpoint).
	NoWatch bool
	Run     func(s *state.Store, ws memdb.WatchSet) (uint64, any, error)
}

type QResult struct {
	Index  uint64
	Result string // canonical encoding (Raft indexes included)
	Err    string
	// Unmasked is set where a known-finding mask applies: the rendering without that mask.
	Unmasked string
}

// DerivedRowTypes are rows that no client writes: they are derived from registrations and
// config entries, and on restore they are re-derived (in persistCE order), so their own
// Create/ModifyIndex may legitimately differ from the live store's. Their CONTENT and the
// query index they are served with are still compared (DESIGN.md C02, comparison levels).
var DerivedRowTypes = map[string]bool{"KindServiceName.RaftIndex": true, "GatewayService.RaftIndex": true, "upstreamDownstream.RaftIndex": true}

// KnownMasks are fields hidden from the GATING comparison because a recorded known finding
// (known_findings.json) explains their difference; a second, unmasked comparison counts the
// finding when it shows, so that it is reported as KNOWN-FINDING and disappears when repaired.
var KnownMasks = map[string]string{
	"GatewayService.ServiceKind": "C02-gateway-service-kind-history-dependent",
}

func masksWithKnown() map[string]bool {
	m := map[string]bool{}
	for k := range DerivedRowTypes {
		m[k] = true
	}
	for k := range KnownMasks {
		m[k] = true
	}
	return m
}

var gatingMasks = masksWithKnown()

// MaskDerived switches the masking on (C02) or off (everything else).
func (q Query) EvalMasked(s *state.Store, ws memdb.WatchSet) QResult {
	idx, res, err := q.Run(s, ws)
	if err != nil {
		return QResult{Index: idx, Err: err.Error()}
	}
	out := q.render(idx, res, gatingMasks)
	if q.Group == "gateway" {
		out.Unmasked = q.render(idx, res, DerivedRowTypes).Result
	}
	return out
}

func (q Query) render(idx uint64, res any, masks map[string]bool) QResult {
	canon := func(v any) string { return simkit.CanonOpt(v, masks, q.DeepUnordered) }
	if q.Unordered {
		if rv := reflect.ValueOf(res); rv.IsValid() && rv.Kind() == reflect.Slice {
			parts := make([]string, rv.Len())
			for i := range parts {
				parts[i] = canon(rv.Index(i).Interface())
			}
			sort.Strings(parts)
			return QResult{Index: idx, Result: "set[" + strings.Join(parts, ",") + "]"}
		}
	}
	return QResult{Index: idx, Result: canon(res)}
}

func (q Query) Eval(s *state.Store, ws memdb.WatchSet) QResult {
	idx, res, err := q.Run(s, ws)
	if err != nil {
		return QResult{Index: idx, Err: err.Error()}
	}
	if q.Unordered {
		if rv := reflect.ValueOf(res); rv.IsValid() && rv.Kind() == reflect.Slice {
			parts := make([]string, rv.Len())
			for i := range parts {
				parts[i] = simkit.Canon(rv.Index(i).Interface())
			}
			sort.Strings(parts)
			return QResult{Index: idx, Result: "set[" + strings.Join(parts, ",") + "]"}
		}
	}
	return QResult{Index: idx, Result: simkit.CanonOpt(res, nil, q.DeepUnordered)}
}

// Battery instantiates the read API over the universe.
func Battery(u Universe, keys []string, sessions []string, extra BatteryExtra) []Query {
	var qs []Query
	add := func(group, name string, f func(s *state.Store, ws memdb.WatchSet) (uint64, any, error)) {
		q := Query{Name: name, Group: group, Run: f}
		if strings.HasPrefix(name, "KVSGet(") {
			if k, err := strconv.Unquote(strings.TrimSuffix(strings.TrimPrefix(name, "KVSGet("), ")")); err == nil {
				q.Key = k
			}
		}
		switch strings.SplitN(name, "(", 2)[0] {
		case "KVSGet", "SessionGet", "ConfigEntry", "ACLPolicyGetByID", "ACLRoleGetByID", "ACLTokenGetByAccessor", "PeeringRead", "PeeringTrustBundleRead":
			q.Single = true
		}
		qs = append(qs, q)
	}
	peers := []string{""}
	hasPeer := false
	for _, p := range u.Peers {
		if p != "" && !hasPeer {
			peers = append(peers, p)
			hasPeer = true
		}
	}
	// ---- KV
	for _, k := range keys {
		k := k
		if k != "" {
			add("kv", fmt.Sprintf("KVSGet(%q)", k), func(s *state.Store, ws memdb.WatchSet) (uint64, any, error) {
				return retKV(s.KVSGet(ws, k, nil))
			})
		}
		add("kv", fmt.Sprintf("KVSList(%q)", k), func(s *state.Store, ws memdb.WatchSet) (uint64, any, error) {
			i, r, e := s.KVSList(ws, k, nil)
			return i, r, e
		})
	}
	// ---- sessions
	add("session", "SessionList", func(s *state.Store, ws memdb.WatchSet) (uint64, any, error) {
		i, r, e := s.SessionList(ws, nil)
		return i, r, e
	})
	for _, id := range sessions {
		id := id
		add("session", "SessionGet("+tail8(id)+")", func(s *state.Store, ws memdb.WatchSet) (uint64, any, error) {
			i, r, e := s.SessionGet(ws, id, nil)
			return i, r, e
		})
	}
	for _, n := range u.Nodes {
		n := n
		add("session", "NodeSessions("+n+")", func(s *state.Store, ws memdb.WatchSet) (uint64, any, error) {
			i, r, e := s.NodeSessions(ws, n, nil)
			return i, r, e
		})
	}
	// ---- catalog / health
	for _, peer := range peers {
		peer := peer
		sfx := ""
		if peer != "" {
			sfx = "@" + peer
		}
		add("catalog", "Nodes"+sfx, func(s *state.Store, ws memdb.WatchSet) (uint64, any, error) {
			i, r, e := s.Nodes(ws, nil, peer)
			return i, r, e
		})
		add("catalog", "Services"+sfx, func(s *state.Store, ws memdb.WatchSet) (uint64, any, error) {
			i, r, e := s.Services(ws, nil, peer, false)
			return i, r, e
		})
		add("catalog", "ServiceList"+sfx, func(s *state.Store, ws memdb.WatchSet) (uint64, any, error) {
			i, r, e := s.ServiceList(ws, nil, peer)
			return i, r, e
		})
		qs[len(qs)-1].Unordered = true // built by ranging over a map
		add("catalog", "NodeDump"+sfx, func(s *state.Store, ws memdb.WatchSet) (uint64, any, error) {
			i, r, e := s.NodeDump(ws, nil, peer)
			return i, r, e
		})
		for _, st := range []string{"critical", "passing", "any"} {
			st := st
			add("health", "ChecksInState("+st+")"+sfx, func(s *state.Store, ws memdb.WatchSet) (uint64, any, error) {
				i, r, e := s.ChecksInState(ws, st, nil, peer)
				return i, r, e
			})
		}
		for _, n := range append([]string{}, u.Nodes...) {
			n := n
			add("catalog", "NodeServices("+n+")"+sfx, func(s *state.Store, ws memdb.WatchSet) (uint64, any, error) {
				i, r, e := s.NodeServices(ws, n, nil, peer)
				return i, r, e
			})
			add("catalog", "NodeServiceList("+n+")"+sfx, func(s *state.Store, ws memdb.WatchSet) (uint64, any, error) {
				i, r, e := s.NodeServiceList(ws, n, nil, peer)
				return i, r, e
			})
			add("health", "NodeChecks("+n+")"+sfx, func(s *state.Store, ws memdb.WatchSet) (uint64, any, error) {
				i, r, e := s.NodeChecks(ws, n, nil, peer)
				return i, r, e
			})
		}
		for _, svc := range extra.ServiceNames(u) {
			svc := svc
			add("catalog", "ServiceNodes("+svc+")"+sfx, func(s *state.Store, ws memdb.WatchSet) (uint64, any, error) {
				i, r, e := s.ServiceNodes(ws, svc, nil, peer)
				return i, r, e
			})
			add("health", "ServiceChecks("+svc+")"+sfx, func(s *state.Store, ws memdb.WatchSet) (uint64, any, error) {
				i, r, e := s.ServiceChecks(ws, svc, nil, peer)
				return i, r, e
			})
			add("health", "CheckServiceNodes("+svc+")"+sfx, func(s *state.Store, ws memdb.WatchSet) (uint64, any, error) {
				i, r, e := s.CheckServiceNodes(ws, svc, nil, peer)
				return i, r, e
			})
			add("health", "CheckConnectServiceNodes("+svc+")"+sfx, func(s *state.Store, ws memdb.WatchSet) (uint64, any, error) {
				i, r, e := s.CheckConnectServiceNodes(ws, svc, nil, peer)
				return i, r, e
			})
		}
	}
	for _, svc := range u.Services {
		svc := svc
		add("catalog", "ServiceTagNodes("+svc+",v1)", func(s *state.Store, ws memdb.WatchSet) (uint64, any, error) {
			i, r, e := s.ServiceTagNodes(ws, svc, []string{"v1"}, nil, "")
			return i, r, e
		})
		add("catalog", "ConnectServiceNodes("+svc+")", func(s *state.Store, ws memdb.WatchSet) (uint64, any, error) {
			i, r, e := s.ConnectServiceNodes(ws, svc, nil, "")
			return i, r, e
		})
		add("health", "CheckServiceTagNodes("+svc+",v1)", func(s *state.Store, ws memdb.WatchSet) (uint64, any, error) {
			i, r, e := s.CheckServiceTagNodes(ws, svc, []string{"v1"}, nil, "")
			return i, r, e
		})
		add("health", "CheckIngressServiceNodes("+svc+")", func(s *state.Store, ws memdb.WatchSet) (uint64, any, error) {
			i, r, e := s.CheckIngressServiceNodes(ws, svc, nil)
			return i, r, e
		})
		add("topology", "ServiceTopology("+svc+")", func(s *state.Store, ws memdb.WatchSet) (uint64, any, error) {
			i, r, e := s.ServiceTopology(ws, "dc1", svc, structs.ServiceKindTypical, true, nil)
			return i, r, e
		})
		qs[len(qs)-1].DeepUnordered = true
		add("chain", "ServiceDiscoveryChain("+svc+")", func(s *state.Store, ws memdb.WatchSet) (uint64, any, error) {
			i, r, _, e := s.ServiceDiscoveryChain(ws, svc, nil, discoverychain.CompileRequest{
				ServiceName: svc, EvaluateInNamespace: "default", EvaluateInPartition: "default", EvaluateInDatacenter: "dc1",
				EvaluateInTrustDomain: "11111111-2222-3333-4444-555555555555.consul"})
			return i, r, e
		})
		add("intention", "IntentionMatch(dest="+svc+")", func(s *state.Store, ws memdb.WatchSet) (uint64, any, error) {
			i, r, e := s.IntentionMatch(ws, &structs.IntentionQueryMatch{Type: structs.IntentionMatchDestination,
				Entries: []structs.IntentionMatchEntry{{Namespace: "default", Partition: "default", Name: svc}}})
			return i, r, e
		})
		add("intention", "IntentionMatch(src="+svc+")", func(s *state.Store, ws memdb.WatchSet) (uint64, any, error) {
			i, r, e := s.IntentionMatch(ws, &structs.IntentionQueryMatch{Type: structs.IntentionMatchSource,
				Entries: []structs.IntentionMatchEntry{{Namespace: "default", Partition: "default", Name: svc}}})
			return i, r, e
		})
		add("vip", "VirtualIPForService("+svc+")", func(s *state.Store, ws memdb.WatchSet) (uint64, any, error) {
			r, e := s.VirtualIPForService(structs.PeeredServiceName{ServiceName: structs.NewServiceName(svc, nil)})
			return 1, r, e
		})
		qs[len(qs)-1].NoIndex, qs[len(qs)-1].NoWatch = true, true
	}
	// node-meta filtered variants
	for _, rack := range []string{"r1", "r2"} {
		filter := map[string]string{"rack": rack}
		add("catalog", "NodesByMeta(rack="+rack+")", func(s *state.Store, ws memdb.WatchSet) (uint64, any, error) {
			i, r, e := s.NodesByMeta(ws, filter, nil, "")
			return i, r, e
		})
		add("catalog", "ServicesByNodeMeta(rack="+rack+")", func(s *state.Store, ws memdb.WatchSet) (uint64, any, error) {
			i, r, e := s.ServicesByNodeMeta(ws, filter, nil, "")
			return i, r, e
		})
		add("health", "ChecksInStateByNodeMeta(any,rack="+rack+")", func(s *state.Store, ws memdb.WatchSet) (uint64, any, error) {
			i, r, e := s.ChecksInStateByNodeMeta(ws, "any", filter, nil, "")
			return i, r, e
		})
		for _, svc := range u.Services {
			svc := svc
			add("health", "ServiceChecksByNodeMeta("+svc+",rack="+rack+")", func(s *state.Store, ws memdb.WatchSet) (uint64, any, error) {
				i, r, e := s.ServiceChecksByNodeMeta(ws, svc, filter, nil, "")
				return i, r, e
			})
		}
	}
	for _, gw := range []string{"igw", "tgw", "igw2", "tgw2"} {
		gw := gw
		add("gateway", "GatewayServices("+gw+")", func(s *state.Store, ws memdb.WatchSet) (uint64, any, error) {
			i, r, e := s.GatewayServices(ws, gw, nil)
			return i, r, e
		})
	}
	add("gateway", "DumpGatewayServices", func(s *state.Store, ws memdb.WatchSet) (uint64, any, error) {
		i, r, e := s.DumpGatewayServices(ws)
		return i, r, e
	})
	for _, kind := range []structs.ServiceKind{structs.ServiceKindTypical, structs.ServiceKindConnectProxy, structs.ServiceKindIngressGateway, structs.ServiceKindTerminatingGateway, structs.ServiceKindMeshGateway} {
		kind := kind
		add("catalog", "ServiceNamesOfKind("+string(kind)+")", func(s *state.Store, ws memdb.WatchSet) (uint64, any, error) {
			i, r, e := s.ServiceNamesOfKind(ws, kind)
			return i, r, e
		})
		add("catalog", "ServiceDump("+string(kind)+")", func(s *state.Store, ws memdb.WatchSet) (uint64, any, error) {
			i, r, e := s.ServiceDump(ws, kind, true, nil, "")
			return i, r, e
		})
	}
	// ---- config entries, intentions
	add("config", "ConfigEntries", func(s *state.Store, ws memdb.WatchSet) (uint64, any, error) {
		i, r, e := s.ConfigEntries(ws, nil)
		return i, r, e
	})
	for _, kind := range []string{structs.ServiceDefaults, structs.ProxyDefaults, structs.ServiceResolver, structs.ServiceSplitter, structs.ServiceRouter,
		structs.IngressGateway, structs.TerminatingGateway, structs.ServiceIntentions, structs.MeshConfig, structs.ExportedServices} {
		kind := kind
		add("config", "ConfigEntriesByKind("+kind+")", func(s *state.Store, ws memdb.WatchSet) (uint64, any, error) {
			i, r, e := s.ConfigEntriesByKind(ws, kind, nil)
			return i, r, e
		})
	}
	for _, kn := range [][2]string{{structs.ServiceDefaults, "web"}, {structs.ServiceResolver, "web"}, {structs.ServiceResolver, "api"}, {structs.ProxyDefaults, "global"},
		{structs.ServiceIntentions, "web"}, {structs.ServiceIntentions, "*"}, {structs.IngressGateway, "igw"}, {structs.TerminatingGateway, "tgw"}, {structs.MeshConfig, "mesh"}, {structs.ExportedServices, "default"}} {
		kn := kn
		add("config", "ConfigEntry("+kn[0]+"/"+kn[1]+")", func(s *state.Store, ws memdb.WatchSet) (uint64, any, error) {
			i, r, e := s.ConfigEntry(ws, kn[0], kn[1], nil)
			return i, r, e
		})
	}
	add("intention", "Intentions", func(s *state.Store, ws memdb.WatchSet) (uint64, any, error) {
		i, r, _, e := s.Intentions(ws, structs.WildcardEnterpriseMetaInDefaultPartition())
		return i, r, e
	})
	add("intention", "LegacyIntentions", func(s *state.Store, ws memdb.WatchSet) (uint64, any, error) {
		i, r, e := s.LegacyIntentions(ws, structs.WildcardEnterpriseMetaInDefaultPartition())
		return i, r, e
	})
	// ---- prepared queries, coordinates
	add("query", "PreparedQueryList", func(s *state.Store, ws memdb.WatchSet) (uint64, any, error) {
		i, r, e := s.PreparedQueryList(ws)
		return i, r, e
	})
	for n := 1; n <= 3; n++ {
		id := QueryUUID(n)
		add("query", "PreparedQueryGet("+tail8(id)+")", func(s *state.Store, ws memdb.WatchSet) (uint64, any, error) {
			i, r, e := s.PreparedQueryGet(ws, id)
			return i, r, e
		})
	}
	add("coordinate", "Coordinates", func(s *state.Store, ws memdb.WatchSet) (uint64, any, error) {
		i, r, e := s.Coordinates(ws, nil)
		return i, r, e
	})
	for _, n := range u.Nodes {
		n := n
		add("coordinate", "Coordinate("+n+")", func(s *state.Store, ws memdb.WatchSet) (uint64, any, error) {
			i, r, e := s.Coordinate(ws, n, nil)
			return i, r, e
		})
	}
	// ---- CA, peering, ACL, federation, metadata
	add("ca", "CARoots", func(s *state.Store, ws memdb.WatchSet) (uint64, any, error) { i, r, e := s.CARoots(ws); return i, r, e })
	add("ca", "CARootActive", func(s *state.Store, ws memdb.WatchSet) (uint64, any, error) {
		i, r, e := s.CARootActive(ws)
		return i, r, e
	})
	add("ca", "CAConfig", func(s *state.Store, ws memdb.WatchSet) (uint64, any, error) {
		i, r, e := s.CAConfig(ws)
		return i, r, e
	})
	add("internal", "CAProviderState(prov1)", func(s *state.Store, ws memdb.WatchSet) (uint64, any, error) {
		i, r, e := s.CAProviderState("prov1")
		return i, r, e
	})
	qs[len(qs)-1].NoWatch = true
	add("peering", "PeeringList", func(s *state.Store, ws memdb.WatchSet) (uint64, any, error) {
		i, r, e := s.PeeringList(ws, *structs.DefaultEnterpriseMetaInDefaultPartition())
		return i, r, e
	})
	add("peering", "PeeringTrustBundleList", func(s *state.Store, ws memdb.WatchSet) (uint64, any, error) {
		i, r, e := s.PeeringTrustBundleList(ws, *structs.DefaultEnterpriseMetaInDefaultPartition())
		return i, r, e
	})
	for _, pn := range []string{"peerA", "peerB"} {
		pn := pn
		add("peering", "PeeringRead("+pn+")", func(s *state.Store, ws memdb.WatchSet) (uint64, any, error) {
			i, r, e := s.PeeringRead(ws, state.Query{Value: pn})
			return i, r, e
		})
		add("peering", "PeeringTrustBundleRead("+pn+")", func(s *state.Store, ws memdb.WatchSet) (uint64, any, error) {
			i, r, e := s.PeeringTrustBundleRead(ws, state.Query{Value: pn})
			return i, r, e
		})
	}
	for n := 1; n <= 2; n++ {
		id := PeerUUID(n)
		add("internal", "ExportedServicesForPeer("+tail8(id)+")", func(s *state.Store, ws memdb.WatchSet) (uint64, any, error) {
			i, r, e := s.ExportedServicesForPeer(ws, id, "dc1")
			if e != nil {
				return i, nil, nil // unknown peering id: not an interesting error
			}
			return i, r, e
		})
		add("internal", "PeeringSecretsRead("+tail8(id)+")", func(s *state.Store, ws memdb.WatchSet) (uint64, any, error) {
			r, e := s.PeeringSecretsRead(ws, id)
			return 1, r, e
		})
		qs[len(qs)-1].NoIndex, qs[len(qs)-1].NoWatch = true, true
	}
	add("acl", "ACLTokenList", func(s *state.Store, ws memdb.WatchSet) (uint64, any, error) {
		i, r, e := s.ACLTokenList(ws, true, true, "", "", "", nil, nil)
		return i, r, e
	})
	add("acl", "ACLPolicyList", func(s *state.Store, ws memdb.WatchSet) (uint64, any, error) {
		i, r, e := s.ACLPolicyList(ws, nil)
		return i, r, e
	})
	add("acl", "ACLRoleList", func(s *state.Store, ws memdb.WatchSet) (uint64, any, error) {
		i, r, e := s.ACLRoleList(ws, "", nil)
		return i, r, e
	})
	add("acl", "ACLAuthMethodList", func(s *state.Store, ws memdb.WatchSet) (uint64, any, error) {
		i, r, e := s.ACLAuthMethodList(ws, nil)
		return i, r, e
	})
	add("acl", "ACLBindingRuleList", func(s *state.Store, ws memdb.WatchSet) (uint64, any, error) {
		i, r, e := s.ACLBindingRuleList(ws, "", nil)
		return i, r, e
	})
	for n := 1; n <= 3; n++ {
		n := n
		add("acl", fmt.Sprintf("ACLTokenGetByAccessor(%d)", n), func(s *state.Store, ws memdb.WatchSet) (uint64, any, error) {
			i, r, e := s.ACLTokenGetByAccessor(ws, TokenUUID(n), nil)
			return i, r, e
		})
		add("acl", fmt.Sprintf("ACLPolicyGetByID(%d)", n), func(s *state.Store, ws memdb.WatchSet) (uint64, any, error) {
			i, r, e := s.ACLPolicyGetByID(ws, PolicyUUID(n), nil)
			return i, r, e
		})
		add("acl", fmt.Sprintf("ACLRoleGetByID(%d)", n), func(s *state.Store, ws memdb.WatchSet) (uint64, any, error) {
			i, r, e := s.ACLRoleGetByID(ws, RoleUUID(n), nil)
			return i, r, e
		})
	}
	add("fed", "FederationStateList", func(s *state.Store, ws memdb.WatchSet) (uint64, any, error) {
		i, r, e := s.FederationStateList(ws)
		return i, r, e
	})
	add("meta", "SystemMetadataList", func(s *state.Store, ws memdb.WatchSet) (uint64, any, error) {
		i, r, e := s.SystemMetadataList(ws)
		return i, r, e
	})
	add("meta", "AutopilotConfig", func(s *state.Store, ws memdb.WatchSet) (uint64, any, error) {
		i, r, e := s.AutopilotConfig()
		return i, r, e
	})
	qs[len(qs)-1].NoWatch = true
	add("meta", "FeatureGatePolicyAndStatus", func(s *state.Store, ws memdb.WatchSet) (uint64, any, error) {
		i, p, st, e := s.FeatureGatePolicyAndStatus(ws)
		return i, []any{p, st}, e
	})
	add("vip", "ServiceVirtualIPs", func(s *state.Store, ws memdb.WatchSet) (uint64, any, error) {
		i, r, e := s.ServiceVirtualIPs()
		return i, r, e
	})
	qs[len(qs)-1].NoWatch = true
	// ---- usage metrics (index exempt across restore, see DESIGN C02)
	usage := func(name string, f func(s *state.Store, ws memdb.WatchSet) (uint64, any, error)) {
		qs = append(qs, Query{Name: name, Group: "usage", UsageMetric: true, NoWatch: name != "ServiceUsage", Run: f})
	}
	usage("ServiceUsage", func(s *state.Store, ws memdb.WatchSet) (uint64, any, error) {
		i, r, e := s.ServiceUsage(ws, false)
		return i, r, e
	})
	usage("NodeUsage", func(s *state.Store, ws memdb.WatchSet) (uint64, any, error) { i, r, e := s.NodeUsage(); return i, r, e })
	usage("KVUsage", func(s *state.Store, ws memdb.WatchSet) (uint64, any, error) { i, r, e := s.KVUsage(); return i, r, e })
	usage("ConfigEntryUsage", func(s *state.Store, ws memdb.WatchSet) (uint64, any, error) {
		i, r, e := s.ConfigEntryUsage()
		return i, r, e
	})
	usage("PeeringUsage", func(s *state.Store, ws memdb.WatchSet) (uint64, any, error) {
		i, r, e := s.PeeringUsage()
		return i, r, e
	})
	return qs
}

func retKV(i uint64, e *structs.DirEntry, err error) (uint64, any, error) { return i, e, err }

// BatteryExtra lets a world add names beyond the universe's service list.
type BatteryExtra struct {
	Names []string
}

func (b BatteryExtra) ServiceNames(u Universe) []string {
	return append(append([]string{}, u.Services...), b.Names...)
}

// EvalBatteryMasked evaluates every query with derived-row indexes masked.
func EvalBatteryMasked(qs []Query, s *state.Store) []QResult {
	out := make([]QResult, len(qs))
	for i, q := range qs {
		out[i] = q.EvalMasked(s, nil)
	}
	return out
}

// EvalBattery evaluates every query (no watch sets).
func EvalBattery(qs []Query, s *state.Store) []QResult {
	out := make([]QResult, len(qs))
	for i, q := range qs {
		out[i] = q.Eval(s, nil)
	}
	return out
}
