//go:build verif

package fsmworld

import (
	"fmt"
	"math/rand/v2"
	"os"
	"reflect"
	"sort"
	"strings"
	"testing"
	"time"

	"github.com/hashicorp/consul/agent/consul/state"
	"github.com/hashicorp/consul/agent/structs"
	"github.com/hashicorp/consul/internal/verifsim/simkit"
)

// C07: catalog integrity. After EVERY committed entry (also background ones):
// no orphans, complete cascades, usage counters equal recounts, virtual IPs
// injective and consistent with what instances advertise, and the derived views
// (kind-service-names, gateway-services membership, mesh-topology) equal a
// reference derivation computed from registrations and config entries alone.
type C07 struct{}

func (C07) Decode(raw []byte) (simkit.Plan, error) { return DecodePlan(raw) }

func (C07) Generate(rng *rand.Rand, tier string, runIdx uint64) simkit.Plan {
	u := DefaultUniverse()
	w := Weights{Register: 40, Deregister: 18, KV: 3, Session: 5, Txn: 8, Advance: 2, Snapshot: 1, Restart: 1, Kinds: true, Ext: 0}
	w.Peer = simkit.Chance(rng, 50)
	// one run in eight re-registers instance ids with another kind in place (known finding)
	w.InPlaceKind = simkit.Chance(rng, 12)
	g := NewGen(rng, u, w)
	n := 10 + rng.IntN(70)
	p := &Plan{Cfg: Cfg{GCTTL: "15m", GCGran: "30s"}}
	p.Cfg.Extra = map[string]string{"dualstack": simkit.Pick(rng, []string{"off", "off", "on"}), "inplace": fmt.Sprint(w.InPlaceKind)}
	if simkit.Chance(rng, 70) {
		p.Steps = append(p.Steps, Step{Op: "sysmeta.set", Key: "virtual-ips", Val: "true"})
		if simkit.Chance(rng, 70) {
			// the second feature marker: terminating gateways advertise the virtual IPs of the services linked to them
			p.Steps = append(p.Steps, Step{Op: "sysmeta.set", Key: "virtual-ips-term-gateway", Val: "true"})
		}
	}
	for len(p.Steps) < n {
		switch {
		case simkit.Chance(rng, 22):
			// gateway / service-defaults / resolver / proxy-defaults / mesh entries
			text := ""
			for try := 0; try < 20; try++ {
				text = g.ConfigEntryJSON()
				k, _ := g.ceName(text)
				if k == "ingress-gateway" || k == "terminating-gateway" || k == "service-defaults" || k == "service-resolver" || k == "proxy-defaults" || k == "mesh" {
					break
				}
			}
			op := simkit.Pick(rng, []string{"ce.upsert", "ce.upsert", "ce.upsert", "ce.delete"})
			p.Steps = append(p.Steps, Step{Op: op, Text: text})
		case simkit.Chance(rng, 5):
			p.Steps = append(p.Steps, Step{Op: "vip.manual", Svc: g.pick(u.Services), List: []string{fmt.Sprintf("240.9.0.%d", 1+rng.IntN(3))}})
		case simkit.Chance(rng, 4):
			s := Step{Op: "coord", N: int64(rng.IntN(100))}
			s.List = []string{g.pick(u.Nodes)}
			p.Steps = append(p.Steps, s)
		default:
			p.Steps = append(p.Steps, g.Next())
		}
	}
	return p
}

func (w C07) Execute(t *testing.T, pl simkit.Plan, r *simkit.Run) (v *simkit.Violation) {
	if err := simkit.Bubble(t, func() { v = w.execute(pl.(*Plan), r) }); err != nil {
		return &simkit.Violation{Class: "harness-panic", Invariant: "no-escaped-panic", Detail: err.Error()}
	}
	return v
}

type c07Finding struct{ class, inv, detail string }

func nodeKey(peer, node string) string { return peer + "\x00" + strings.ToLower(node) }

// checkCatalog evaluates every C07 invariant on the replica's current state.
func checkCatalog(rep *Replica, r *simkit.Run, inPlace bool) *c07Finding {
	st := rep.State()
	cat, err := st.CatalogDump()
	if err != nil {
		panic(err)
	}
	nodes := map[string]*structs.Node{}
	for _, n := range cat.Nodes {
		nodes[nodeKey(n.PeerName, n.Node)] = n
	}
	services := map[string]*structs.ServiceNode{}
	for _, s := range cat.Services {
		if nodes[nodeKey(s.PeerName, s.Node)] == nil {
			return &c07Finding{"orphan", "service-has-node", fmt.Sprintf("service %s/%s (peer %q) has no node row", s.Node, s.ServiceID, s.PeerName)}
		}
		services[nodeKey(s.PeerName, s.Node)+"\x00"+s.ServiceID] = s
	}
	for _, c := range cat.Checks {
		if nodes[nodeKey(c.PeerName, c.Node)] == nil {
			return &c07Finding{"orphan", "check-has-node", fmt.Sprintf("check %s/%s (peer %q) has no node row", c.Node, c.CheckID, c.PeerName)}
		}
		if c.ServiceID != "" && services[nodeKey(c.PeerName, c.Node)+"\x00"+c.ServiceID] == nil {
			return &c07Finding{"orphan", "service-check-has-service", fmt.Sprintf("check %s/%s is bound to service %q which is not registered on the node", c.Node, c.CheckID, c.ServiceID)}
		}
	}
	_, coords, err := st.Coordinates(nil, nil)
	if err != nil {
		panic(err)
	}
	for _, c := range coords {
		if nodes[nodeKey("", c.Node)] == nil {
			return &c07Finding{"cascade-incomplete", "coordinate-has-node", fmt.Sprintf("coordinate of node %q survives without the node", c.Node)}
		}
	}
	_, sessions, err := st.SessionList(nil, nil)
	if err != nil {
		panic(err)
	}
	for _, s := range sessions {
		if nodes[nodeKey("", s.Node)] == nil {
			return &c07Finding{"cascade-incomplete", "session-has-node", fmt.Sprintf("session %s of node %q survives without the node", tail8(s.ID), s.Node)}
		}
	}

	// ---- usage counters vs recount
	var nNodes, nInst, nBillable int
	names := map[string]bool{}
	kinds := map[string]int{}
	for _, n := range cat.Nodes {
		if n.PeerName == "" {
			nNodes++
		}
	}
	for _, s := range cat.Services {
		if s.PeerName != "" {
			continue
		}
		nInst++
		names[s.ServiceName] = true
		if s.ServiceKind != structs.ServiceKindTypical {
			kinds[string(s.ServiceKind)]++
		}
		if s.ServiceConnect.Native {
			kinds["connect-native"]++
		}
		if s.ServiceKind == structs.ServiceKindTypical && s.ServiceName != structs.ConsulServiceName {
			nBillable++
		}
	}
	_, su, err := st.ServiceUsage(nil, false)
	if err != nil {
		panic(err)
	}
	if su.Nodes != nNodes || su.ServiceInstances != nInst || su.Services != len(names) || su.BillableServiceInstances != nBillable {
		return &c07Finding{"derived-mismatch:usage", "usage-equals-recount", fmt.Sprintf("usage {nodes=%d instances=%d services=%d billable=%d} but recount {nodes=%d instances=%d services=%d billable=%d}",
			su.Nodes, su.ServiceInstances, su.Services, su.BillableServiceInstances, nNodes, nInst, len(names), nBillable)}
	}
	for k, n := range su.ConnectServiceInstances {
		if kinds[k] != n {
			return &c07Finding{"derived-mismatch:usage", "connect-usage-equals-recount", fmt.Sprintf("usage connect[%s]=%d but recount %d", k, n, kinds[k])}
		}
	}
	_, nu, _ := st.NodeUsage()
	if nu.Nodes != nNodes {
		return &c07Finding{"derived-mismatch:usage", "usage-equals-recount", fmt.Sprintf("node usage %d but recount %d", nu.Nodes, nNodes)}
	}
	_, kvu, _ := st.KVUsage()
	_, kvs, _ := st.KVSList(nil, "", nil)
	if kvu.KVCount != len(kvs) {
		return &c07Finding{"derived-mismatch:usage", "usage-equals-recount", fmt.Sprintf("kv usage %d but %d keys", kvu.KVCount, len(kvs))}
	}
	_, ceu, _ := st.ConfigEntryUsage()
	_, entries, _ := st.ConfigEntries(nil, structs.WildcardEnterpriseMetaInDefaultPartition())
	byKind := map[string]int{}
	for _, e := range entries {
		byKind[e.GetKind()]++
	}
	for k, n := range ceu.ConfigByKind {
		if byKind[k] != n {
			return &c07Finding{"derived-mismatch:usage", "usage-equals-recount", fmt.Sprintf("config entry usage[%s]=%d but %d entries", k, n, byKind[k])}
		}
	}

	// ---- virtual IPs
	_, vips, err := st.ServiceVirtualIPs()
	if err != nil {
		panic(err)
	}
	byIP := map[string]string{}
	manual := map[string]string{}
	assigned := map[string]state.ServiceVirtualIP{}
	for _, v := range vips {
		key := v.Service.String()
		assigned[key] = v
		if ip := v.IP.String(); v.IP != nil && len(v.IP) > 0 {
			if other, dup := byIP[ip]; dup {
				return &c07Finding{"vip-conflict", "virtual-ip-injective", fmt.Sprintf("services %s and %s share virtual IP %s", other, key, ip)}
			}
			byIP[ip] = key
		}
		for _, m := range v.ManualIPs {
			if other, dup := manual[m]; dup && other != key {
				return &c07Finding{"vip-conflict", "manual-virtual-ip-unique", fmt.Sprintf("services %s and %s share manual virtual IP %s", other, key, m)}
			}
			manual[m] = key
		}
	}
	var freeAndUsed []string
	rep.State().WalkAllTables(func(table string, item interface{}) bool {
		if table == "free-virtual-ips" {
			v := reflect.Indirect(reflect.ValueOf(item))
			if v.Kind() == reflect.Struct && !v.FieldByName("IsCounter").Bool() {
				ip := fmt.Sprint(v.FieldByName("IP").Interface())
				if owner, used := byIP[ip]; used {
					freeAndUsed = append(freeAndUsed, owner+" ("+ip+")")
				}
			}
		}
		return true
	})
	if len(freeAndUsed) > 0 {
		sort.Strings(freeAndUsed)
		return &c07Finding{"vip-conflict", "free-list-disjoint-from-assigned", "assigned virtual IP is also on the free list: " + strings.Join(freeAndUsed, ", ")}
	}
	if os.Getenv("VERIF_DEBUG_C07") != "" {
		for _, v := range vips {
			fmt.Printf("DEBUG vip %s -> %v manual=%v\n", v.Service.String(), v.IP, v.ManualIPs)
		}
		for _, s := range cat.Services {
			fmt.Printf("DEBUG svc %s/%s kind=%q tagged=%v\n", s.Node, s.ServiceID, s.ServiceKind, s.ServiceTaggedAddresses)
		}
		fmt.Println("DEBUG ---")
	}
	// a terminating gateway advertises the virtual IP of every service linked to it
	for _, s := range cat.Services {
		if s.ServiceKind != structs.ServiceKindTerminatingGateway || s.PeerName != "" {
			continue
		}
		for _, key := range simkit.SortedKeys(s.ServiceTaggedAddresses) {
			if !strings.HasPrefix(key, structs.TaggedAddressVirtualIP+":") {
				continue
			}
			sn := structs.ServiceNameFromString(strings.TrimPrefix(key, structs.TaggedAddressVirtualIP+":"))
			want, err := st.VirtualIPForService(structs.PeeredServiceName{ServiceName: sn})
			if err != nil {
				panic(err)
			}
			if got := s.ServiceTaggedAddresses[key].Address; got != want {
				// known finding C07-gateway-keeps-advertising-unlinked-service: when the gateway's config entry no
				// longer links the service (entry deleted or rewritten), the instance keeps the tagged address; once
				// the service's assignment is freed the advertisement is stale. Tolerated only while no link exists.
				linked := false
				if _, gws, err := st.GatewayServices(nil, s.ServiceName, nil); err == nil {
					for _, g := range gws {
						if g.Service.Name == sn.Name {
							linked = true
						}
					}
				}
				if !linked {
					r.Hit("known-finding.C07-gateway-keeps-advertising-unlinked-service")
					continue
				}
				return &c07Finding{"vip-conflict", "advertised-virtual-ip-is-current-assignment", fmt.Sprintf("gateway instance %s/%s advertises virtual IP %s for service %s, which is assigned %q", s.Node, s.ServiceID, got, sn.String(), want)}
			}
		}
	}
	// no two nodes of one cluster (or one peer) share a node id
	nodeIDs := map[string]string{}
	for _, n := range cat.Nodes {
		if n.ID == "" {
			continue
		}
		k := n.PeerName + "/" + strings.ToLower(string(n.ID))
		if other, dup := nodeIDs[k]; dup {
			return &c07Finding{"orphan", "node-id-unique", fmt.Sprintf("nodes %q and %q (peer %q) share node id %s: a rename by id left the old registration behind", other, n.Node, n.PeerName, n.ID)}
		}
		nodeIDs[k] = n.Node
	}
	for _, s := range cat.Services {
		ta, ok := s.ServiceTaggedAddresses[structs.TaggedAddressVirtualIP]
		if !ok || s.PeerName != "" {
			// imported instances: the virtual IP of a peered service follows the instances imported under
			// its own name by design (TestServerPeeredUpstreams), not the proxies that advertise it
			continue
		}
		name := s.ServiceName
		if s.ServiceKind == structs.ServiceKindConnectProxy {
			name = s.ServiceProxy.DestinationServiceName
		}
		psn := structs.PeeredServiceName{ServiceName: structs.NewServiceName(name, &s.EnterpriseMeta), Peer: s.PeerName}
		want, err := st.VirtualIPForService(psn)
		if err != nil {
			panic(err)
		}
		if want != ta.Address {
			return &c07Finding{"vip-conflict", "advertised-virtual-ip-is-current-assignment", fmt.Sprintf("instance %s/%s advertises virtual IP %s but service %s is assigned %q", s.Node, s.ServiceID, ta.Address, psn.String(), want)}
		}
	}

	// ---- kind-service-names vs reference
	ref := referenceKindNames(rep)
	var actual []string
	rep.State().WalkAllTables(func(table string, item interface{}) bool {
		if table == "kind-service-names" {
			actual = append(actual, simkit.Canon(item))
		}
		return true
	})
	sort.Strings(actual)
	seen := map[string]bool{}
	for _, row := range actual {
		ok := false
		for k := range ref {
			if strings.Contains(row, k) {
				ok = true
				seen[k] = true
			}
		}
		if !ok {
			if inPlace {
				r.Hit("known-finding.C07-stale-derived-rows-after-in-place-kind-change")
				continue
			}
			return &c07Finding{"derived-mismatch:kind-service-names", "kind-names-equal-recomputation", "stale row (no registration or config entry yields it): " + simkit.Trunc(row, 300)}
		}
	}
	for _, k := range simkit.SortedKeys(ref) {
		if !seen[k] {
			return &c07Finding{"derived-mismatch:kind-service-names", "kind-names-equal-recomputation", "missing row for " + k}
		}
	}

	// ---- mesh-topology vs proxy registrations (gateway-derived rows are recognised by their empty reference set)
	wantTopo := map[string]map[string]bool{}
	for _, s := range cat.Services {
		if s.PeerName != "" || s.ServiceKind != structs.ServiceKindConnectProxy {
			continue
		}
		for _, u := range s.ServiceProxy.Upstreams {
			if u.DestinationType == structs.UpstreamDestTypePreparedQuery {
				continue
			}
			k := u.DestinationName + " <- " + s.ServiceProxy.DestinationServiceName
			if wantTopo[k] == nil {
				wantTopo[k] = map[string]bool{}
			}
			wantTopo[k][s.Node+"/"+s.ServiceID] = true
		}
	}
	gotTopo := map[string]map[string]bool{}
	rep.State().WalkAllTables(func(table string, item interface{}) bool {
		if table != "mesh-topology" {
			return true
		}
		v := reflect.Indirect(reflect.ValueOf(item))
		up := v.FieldByName("Upstream").FieldByName("Name").String()
		down := v.FieldByName("Downstream").FieldByName("Name").String()
		refs := map[string]bool{}
		it := v.FieldByName("Refs").MapRange()
		for it.Next() {
			refs[it.Key().String()] = true
		}
		if len(refs) > 0 {
			gotTopo[up+" <- "+down] = refs
		}
		return true
	})
	if !inPlace {
		for _, k := range simkit.SortedKeys(wantTopo) {
			if gotTopo[k] == nil {
				return &c07Finding{"derived-mismatch:mesh-topology", "topology-equals-recomputation", "missing upstream/downstream pair " + k}
			}
			for _, ref := range simkit.SortedKeys(wantTopo[k]) {
				if !gotTopo[k][ref] {
					return &c07Finding{"derived-mismatch:mesh-topology", "topology-references-every-contributor", fmt.Sprintf("pair %s lacks the reference to contributing instance %s (has %v)", k, ref, simkit.SortedKeys(gotTopo[k]))}
				}
			}
		}
		for _, k := range simkit.SortedKeys(gotTopo) {
			for _, ref := range simkit.SortedKeys(gotTopo[k]) {
				if wantTopo[k] == nil || !wantTopo[k][ref] {
					return &c07Finding{"derived-mismatch:mesh-topology", "topology-equals-recomputation", fmt.Sprintf("stale pair %s referenced by %s", k, ref)}
				}
			}
		}
	}

	// ---- gateway-services membership vs reference derivation
	if f := checkGatewayMembership(rep, cat, entries, inPlace, r); f != nil {
		return f
	}

	// ---- ServiceList agrees with the services table
	_, sl, err := st.ServiceList(nil, nil, "")
	if err != nil {
		panic(err)
	}
	got := map[string]bool{}
	for _, s := range sl {
		got[s.Name] = true
	}
	if len(got) != len(names) {
		return &c07Finding{"derived-mismatch:service-list", "service-list-equals-table", fmt.Sprintf("ServiceList %v vs services table %v", simkit.SortedKeys(got), simkit.SortedKeys(names))}
	}
	return nil
}

// checkGatewayMembership: {(gateway, service)} from ingress listeners and terminating service lists;
// "*" expands to the services present that qualify (ingress: connect-enabled; terminating: services
// with a non-native instance, and service-defaults destinations).
func checkGatewayMembership(rep *Replica, cat *structs.CatalogContents, entries []structs.ConfigEntry, inPlace bool, r *simkit.Run) *c07Finding {
	hasConnect, hasNonNative := map[string]bool{}, map[string]bool{}
	for _, s := range cat.Services {
		if s.PeerName != "" {
			continue
		}
		if s.ServiceConnect.Native {
			hasConnect[s.ServiceName] = true
		} else {
			hasNonNative[s.ServiceName] = true
		}
		if s.ServiceKind == structs.ServiceKindConnectProxy {
			hasConnect[s.ServiceProxy.DestinationServiceName] = true
		}
	}
	typical := map[string]bool{}
	for _, s := range cat.Services {
		if s.PeerName == "" && s.ServiceKind == structs.ServiceKindTypical && s.ServiceName != "consul" {
			typical[s.ServiceName] = true
		}
	}
	dests := map[string]bool{}
	for _, e := range entries {
		if sd, ok := e.(*structs.ServiceConfigEntry); ok && sd.Destination != nil {
			dests[sd.Name] = true
		}
	}
	want := map[string]bool{}
	explicit := map[string]bool{}
	// dontCare: links whose presence depends on write order on the unchanged tree (known finding
	// C07-wildcard-gateway-link-order-dependent): a service that is connect-enabled ONLY through a sidecar
	// proxy (no instance under its own name) is linked to a wildcard ingress gateway when the proxy registers
	// after the gateway entry, but not when the entry is written after the proxy (the config-entry path
	// walks instances of kind "typical" only).
	dontCare := map[string]bool{}
	for _, e := range entries {
		switch ce := e.(type) {
		case *structs.IngressGatewayConfigEntry:
			for _, l := range ce.Listeners {
				for _, s := range l.Services {
					if s.Name == "*" {
						want[fmt.Sprintf("%s -> *:%d", ce.Name, l.Port)] = true
						for n := range typical {
							if hasConnect[n] {
								want[fmt.Sprintf("%s -> %s:%d", ce.Name, n, l.Port)] = true
							}
						}
						// Everything else with SOME basis (connect-enabled only through a proxy, service-defaults
						// destination) may or may not be linked depending on write order on the unchanged tree
						// (known finding C07-wildcard-gateway-link-order-dependent): allowed, not required.
						for n := range hasConnect {
							if !typical[n] {
								dontCare[fmt.Sprintf("%s -> %s:%d", ce.Name, n, l.Port)] = true
							}
						}
						for n := range dests {
							dontCare[fmt.Sprintf("%s -> %s:%d", ce.Name, n, l.Port)] = true
						}
					} else {
						want[fmt.Sprintf("%s -> %s:%d", ce.Name, s.Name, l.Port)] = true
						explicit[fmt.Sprintf("%s -> %s:%d", ce.Name, s.Name, l.Port)] = true
					}
				}
			}
		case *structs.TerminatingGatewayConfigEntry:
			for _, s := range ce.Services {
				if s.Name == "*" {
					want[fmt.Sprintf("%s -> *:0", ce.Name)] = true
					for n := range typical {
						if hasNonNative[n] {
							want[fmt.Sprintf("%s -> %s:0", ce.Name, n)] = true
						}
					}
					for n := range dests {
						if typical[n] && hasNonNative[n] {
							continue
						}
						dontCare[fmt.Sprintf("%s -> %s:0", ce.Name, n)] = true
					}
				} else {
					want[fmt.Sprintf("%s -> %s:0", ce.Name, s.Name)] = true
					explicit[fmt.Sprintf("%s -> %s:0", ce.Name, s.Name)] = true
				}
			}
		}
	}
	got := map[string]*structs.GatewayService{}
	_, gss, err := rep.State().DumpGatewayServices(nil)
	_ = gss
	if err != nil {
		panic(err)
	}
	rep.State().WalkAllTables(func(table string, item interface{}) bool {
		if table == "gateway-services" {
			gs := item.(*structs.GatewayService)
			if gs.GatewayKind == structs.ServiceKindIngressGateway || gs.GatewayKind == structs.ServiceKindTerminatingGateway {
				got[fmt.Sprintf("%s -> %s:%d", gs.Gateway.Name, gs.Service.Name, gs.Port)] = gs
			}
		}
		return true
	})
	for _, k := range simkit.SortedKeys(want) {
		if got[k] == nil && dontCare[k] {
			continue
		}
		if got[k] == nil {
			if inPlace {
				r.Hit("known-finding.C07-stale-derived-rows-after-in-place-kind-change")
				continue
			}
			return &c07Finding{"derived-mismatch:gateway-services", "gateway-links-equal-recomputation", fmt.Sprintf("missing gateway link %s (links present: %v)", k, simkit.SortedKeys(got))}
		}
		if explicit[k] && got[k].FromWildcard {
			return &c07Finding{"derived-mismatch:gateway-services", "explicit-link-overrides-wildcard", fmt.Sprintf("gateway link %s is listed explicitly in the config entry but the stored row is a wildcard clone", k)}
		}
	}
	for _, k := range simkit.SortedKeys(got) {
		if dontCare[k] {
			r.Hit("known-finding.C07-wildcard-gateway-link-order-dependent")
			continue
		}
		if !want[k] {
			if inPlace {
				r.Hit("known-finding.C07-stale-derived-rows-after-in-place-kind-change")
				continue
			}
			return &c07Finding{"derived-mismatch:gateway-services", "gateway-links-equal-recomputation", fmt.Sprintf("stale gateway link %s (expected links: %v)", k, simkit.SortedKeys(want))}
		}
	}
	return nil
}

func (C07) execute(p *Plan, r *simkit.Run) *simkit.Violation {
	setDualStack(p.Cfg.Extra["dualstack"] == "on")
	inPlace := p.Cfg.Extra["inplace"] == "true"
	c := NewCluster(r, parseDur(p.Cfg.GCTTL, 15*time.Minute), parseDur(p.Cfg.GCGran, 30*time.Second))
	defer c.Close()
	var viol *simkit.Violation
	cur := -1
	c.OnCommit = func(e Entry, _ any) {
		if viol != nil {
			return
		}
		r.Hit("probe.invariants-evaluated")
		if f := checkCatalog(c.L, r, inPlace); f != nil {
			viol = &simkit.Violation{Property: "C07", Class: f.class, Invariant: f.inv, Step: cur, Culprit: opOfDesc(e.Desc),
				Detail: fmt.Sprintf("after entry %d (%s): %s", e.Index, e.Desc, f.detail)}
		}
	}
	for i, s := range p.Steps {
		cur = i
		r.Steps++
		r.Sig(s.Op + s.Kind)
		c.Do(s)
		if c.Fatal != nil {
			return &simkit.Violation{Property: "C07", Class: "panic", Invariant: "apply-does-not-panic", Step: i, Culprit: s.Op, Detail: c.Fatal.Error()}
		}
		if viol != nil {
			return viol
		}
	}
	r.Nontrivial = len(c.Log) >= 3
	return nil
}
