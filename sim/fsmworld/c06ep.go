//go:build verif

package fsmworld

import (
	"fmt"
	"reflect"
	"strings"
	"time"

	"github.com/hashicorp/consul/agent/consul"
	"github.com/hashicorp/consul/agent/structs"
	"github.com/hashicorp/consul/internal/verifsim/simkit"
)

// The endpoint battery of C06: the read RPC endpoints themselves (agent/consul/*_endpoint.go) on the
// leader's server shell - forwarding decision, token resolution with ACLs disabled, the server's own
// blockingQuery, the index rules an endpoint adds on top of the store (tombstone index of an empty KV
// listing, index of a filtered reply, errNotFound of single-item reads), bexpr and ACL filters, sorting
// and SetQueryMeta. The store-level battery (battery.go) judges the state store's answers and watch
// sets; this one judges what a client of the RPC API is told.
type EPQuery struct {
	Name   string
	Method string
	Group  string
	// Like: the store-level query whose known findings (known_findings.json) this endpoint inherits
	Like string
	// Single: a read of one item (errNotFound when there is none)
	Single bool
	Args   func() any
	Reply  func() any
}

type epResult struct {
	Index  uint64
	Result string
	Err    string
	Empty  bool
	// NoIdx: the reply with the Raft indexes of its rows blanked. Several endpoints suppress a wake-up whose
	// reply hashes like the previous one (the hash ignores Raft indexes), so a write that only moves a
	// ModifyIndex deliberately leaves a blocked caller parked; parked calls are therefore compared by this.
	NoIdx string
}

// setOpts fills the embedded QueryOptions of an endpoint request.
func setOpts(args any, min uint64, maxTime time.Duration) {
	v := reflect.ValueOf(args).Elem().FieldByName("QueryOptions")
	if !v.IsValid() {
		panic(fmt.Sprintf("%T has no QueryOptions", args))
	}
	v.Set(reflect.ValueOf(structs.QueryOptions{MinQueryIndex: min, MaxQueryTime: maxTime}))
}

// takeMeta returns the reply's query index and blanks the embedded QueryMeta, so that what is left is
// the data of the reply.
func takeMeta(reply any) uint64 {
	v := reflect.ValueOf(reply).Elem().FieldByName("QueryMeta")
	if !v.IsValid() {
		panic(fmt.Sprintf("%T has no QueryMeta", reply))
	}
	idx := v.Interface().(structs.QueryMeta).Index
	v.Set(reflect.Zero(v.Type()))
	return idx
}

// replyEmpty: every slice or map field of the reply is empty (an empty listing).
func replyEmpty(reply any) bool {
	v := reflect.ValueOf(reply).Elem()
	for i := 0; i < v.NumField(); i++ {
		f := v.Field(i)
		switch f.Kind() {
		case reflect.Slice, reflect.Map:
			if f.Len() > 0 {
				return false
			}
		case reflect.Interface, reflect.Pointer:
			if !f.IsNil() {
				return false
			}
		}
	}
	return true
}

// Call runs the endpoint once: min 0 is the non-blocking form, otherwise the call parks until the
// endpoint reports an index above min (or its time limit passes).
func (q EPQuery) Call(shell *consul.Server, min uint64) epResult {
	args, reply := q.Args(), q.Reply()
	setOpts(args, min, 5*time.Minute)
	err := consul.VerifRead(shell, q.Method, args, reply)
	if err != nil {
		return epResult{Err: err.Error()}
	}
	idx := takeMeta(reply)
	// DataOrigin says whether intentions are served from config entries or from the legacy table: a mode
	// of the deployment (flipped once by a system metadata write), not data of the query
	if f := reflect.ValueOf(reply).Elem().FieldByName("DataOrigin"); f.IsValid() && f.Kind() == reflect.String {
		f.SetString("")
	}
	// listings are compared as multisets: several endpoints assemble them from Go maps, and an order
	// that changes without the data changing is not a change the contract speaks about
	return epResult{Index: idx, Result: simkit.CanonOpt(reply, nil, true), Empty: replyEmpty(reply), NoIdx: simkit.CanonSkipSorted(reply, "RaftIndex", "CreateIndex", "ModifyIndex")}
}

// EPBattery instantiates the read endpoints over the universe.
func EPBattery(u Universe, keys, sessions []string, extra BatteryExtra) []EPQuery {
	var qs []EPQuery
	add := func(group, method, name, like string, args func() any, reply func() any) {
		qs = append(qs, EPQuery{Name: method + "(" + name + ")", Method: method, Group: group, Like: like, Args: args, Reply: reply})
	}
	dcReq := func() any { return &structs.DCSpecificRequest{Datacenter: "dc1"} }
	// ---- KV
	for _, k := range keys {
		k := k
		if k != "" {
			add("kv", "KVS.Get", fmt.Sprintf("%q", k), "KVSGet(", func() any { return &structs.KeyRequest{Datacenter: "dc1", Key: k} }, func() any { return &structs.IndexedDirEntries{} })
			qs[len(qs)-1].Single = true
		}
		add("kv", "KVS.List", fmt.Sprintf("%q", k), "KVSList(", func() any { return &structs.KeyRequest{Datacenter: "dc1", Key: k} }, func() any { return &structs.IndexedDirEntries{} })
		add("kv", "KVS.ListKeys", fmt.Sprintf("%q", k), "KVSList(", func() any { return &structs.KeyListRequest{Datacenter: "dc1", Prefix: k, Seperator: "/"} }, func() any { return &structs.IndexedKeyList{} })
	}
	// ---- sessions
	add("session", "Session.List", "", "", func() any { return &structs.SessionSpecificRequest{Datacenter: "dc1"} }, func() any { return &structs.IndexedSessions{} })
	for _, id := range sessions {
		id := id
		add("session", "Session.Get", tail8(id), "", func() any { return &structs.SessionSpecificRequest{Datacenter: "dc1", SessionID: id} }, func() any { return &structs.IndexedSessions{} })
		qs[len(qs)-1].Single = true
	}
	for _, n := range u.Nodes {
		n := n
		add("session", "Session.NodeSessions", n, "", func() any { return &structs.NodeSpecificRequest{Datacenter: "dc1", Node: n} }, func() any { return &structs.IndexedSessions{} })
	}
	// ---- catalog and health
	peers := []string{"", "peerA"}
	add("catalog", "Catalog.ListNodes", "", "", dcReq, func() any { return &structs.IndexedNodes{} })
	add("catalog", "Catalog.ListNodes", "peerA", "", func() any { return &structs.DCSpecificRequest{Datacenter: "dc1", PeerName: "peerA"} }, func() any { return &structs.IndexedNodes{} })
	add("catalog", "Catalog.ListServices", "", "", dcReq, func() any { return &structs.IndexedServices{} })
	add("catalog", "Catalog.ServiceList", "", "", dcReq, func() any { return &structs.IndexedServiceList{} })
	add("catalog", "Internal.NodeDump", "", "", dcReq, func() any { return &structs.IndexedNodeDump{} })
	add("catalog", "Internal.ServiceDump", "", "", func() any { return &structs.ServiceDumpRequest{Datacenter: "dc1"} }, func() any { return &structs.IndexedNodesWithGateways{} })
	add("catalog", "Internal.ServiceDump", "kind=connect-proxy", "", func() any {
		return &structs.ServiceDumpRequest{Datacenter: "dc1", ServiceKind: structs.ServiceKindConnectProxy, UseServiceKind: true}
	}, func() any { return &structs.IndexedNodesWithGateways{} })
	for _, rack := range []string{"r1", "r2"} {
		rack := rack
		add("catalog", "Catalog.ListNodes", "meta rack="+rack, "", func() any {
			return &structs.DCSpecificRequest{Datacenter: "dc1", NodeMetaFilters: map[string]string{"rack": rack}}
		}, func() any { return &structs.IndexedNodes{} })
		add("catalog", "Catalog.ListNodes", "filter rack="+rack, "", func() any {
			r := &structs.DCSpecificRequest{Datacenter: "dc1"}
			r.Filter = `Meta.rack == "` + rack + `"`
			return r
		}, func() any { return &structs.IndexedNodes{} })
		add("catalog", "Catalog.ListServices", "meta rack="+rack, "", func() any {
			return &structs.DCSpecificRequest{Datacenter: "dc1", NodeMetaFilters: map[string]string{"rack": rack}}
		}, func() any { return &structs.IndexedServices{} })
		add("health", "Health.ChecksInState", "any,meta rack="+rack, "", func() any {
			return &structs.ChecksInStateRequest{Datacenter: "dc1", State: "any", NodeMetaFilters: map[string]string{"rack": rack}}
		}, func() any { return &structs.IndexedHealthChecks{} })
	}
	for _, st := range []string{"critical", "passing", "any"} {
		st := st
		add("health", "Health.ChecksInState", st, "", func() any { return &structs.ChecksInStateRequest{Datacenter: "dc1", State: st} }, func() any { return &structs.IndexedHealthChecks{} })
	}
	for _, peer := range peers {
		peer := peer
		sfx := ""
		if peer != "" {
			sfx = "@" + peer
		}
		for _, n := range u.Nodes {
			n := n
			nodeReq := func() any { return &structs.NodeSpecificRequest{Datacenter: "dc1", Node: n, PeerName: peer} }
			add("catalog", "Catalog.NodeServices", n+sfx, "", nodeReq, func() any { return &structs.IndexedNodeServices{} })
			add("catalog", "Catalog.NodeServiceList", n+sfx, "", nodeReq, func() any { return &structs.IndexedNodeServiceList{} })
			add("health", "Health.NodeChecks", n+sfx, "", nodeReq, func() any { return &structs.IndexedHealthChecks{} })
			if peer == "" {
				add("catalog", "Internal.NodeInfo", n, "", nodeReq, func() any { return &structs.IndexedNodeDump{} })
			}
		}
		for _, svc := range extra.ServiceNames(u) {
			svc := svc
			svcReq := func() any {
				return &structs.ServiceSpecificRequest{Datacenter: "dc1", ServiceName: svc, PeerName: peer}
			}
			add("catalog", "Catalog.ServiceNodes", svc+sfx, "", svcReq, func() any { return &structs.IndexedServiceNodes{} })
			add("health", "Health.ServiceChecks", svc+sfx, "", svcReq, func() any { return &structs.IndexedHealthChecks{} })
			add("health", "Health.ServiceNodes", svc+sfx, "", svcReq, func() any { return &structs.IndexedCheckServiceNodes{} })
			add("health", "Health.ServiceNodes", svc+",connect"+sfx, "CheckConnectServiceNodes", func() any {
				return &structs.ServiceSpecificRequest{Datacenter: "dc1", ServiceName: svc, PeerName: peer, Connect: true}
			}, func() any { return &structs.IndexedCheckServiceNodes{} })
		}
	}
	for _, svc := range u.Services {
		svc := svc
		add("catalog", "Catalog.ServiceNodes", svc+",tag v1", "", func() any {
			return &structs.ServiceSpecificRequest{Datacenter: "dc1", ServiceName: svc, TagFilter: true, ServiceTags: []string{"v1"}}
		}, func() any { return &structs.IndexedServiceNodes{} })
		add("catalog", "Catalog.ServiceNodes", svc+",connect", "ConnectServiceNodes", func() any {
			return &structs.ServiceSpecificRequest{Datacenter: "dc1", ServiceName: svc, Connect: true}
		}, func() any { return &structs.IndexedServiceNodes{} })
		add("health", "Health.ServiceNodes", svc+",tag v1", "", func() any {
			return &structs.ServiceSpecificRequest{Datacenter: "dc1", ServiceName: svc, TagFilter: true, ServiceTags: []string{"v1"}}
		}, func() any { return &structs.IndexedCheckServiceNodes{} })
		add("health", "Health.ServiceNodes", svc+",ingress", "CheckIngressServiceNodes", func() any {
			return &structs.ServiceSpecificRequest{Datacenter: "dc1", ServiceName: svc, Ingress: true}
		}, func() any { return &structs.IndexedCheckServiceNodes{} })
		add("health", "Health.ServiceNodes", svc+",filter passing", "", func() any {
			r := &structs.ServiceSpecificRequest{Datacenter: "dc1", ServiceName: svc}
			r.Filter = `Checks.Status != "critical"`
			return r
		}, func() any { return &structs.IndexedCheckServiceNodes{} })
		add("health", "Health.ServiceChecks", svc+",meta rack=r1", "", func() any {
			return &structs.ServiceSpecificRequest{Datacenter: "dc1", ServiceName: svc, NodeMetaFilters: map[string]string{"rack": "r1"}}
		}, func() any { return &structs.IndexedHealthChecks{} })
		add("intention", "Intention.Match", "dest="+svc, "IntentionMatch(dest=", func() any {
			return &structs.IntentionQueryRequest{Datacenter: "dc1", Match: &structs.IntentionQueryMatch{Type: structs.IntentionMatchDestination,
				Entries: []structs.IntentionMatchEntry{{Namespace: "default", Partition: "default", Name: svc}}}}
		}, func() any { return &structs.IndexedIntentionMatches{} })
		add("intention", "Intention.Match", "src="+svc, "IntentionMatch(src=", func() any {
			return &structs.IntentionQueryRequest{Datacenter: "dc1", Match: &structs.IntentionQueryMatch{Type: structs.IntentionMatchSource,
				Entries: []structs.IntentionMatchEntry{{Namespace: "default", Partition: "default", Name: svc}}}}
		}, func() any { return &structs.IndexedIntentionMatches{} })
	}
	for _, gw := range []string{"igw", "tgw", "igw2", "tgw2"} {
		gw := gw
		gwReq := func() any { return &structs.ServiceSpecificRequest{Datacenter: "dc1", ServiceName: gw} }
		add("gateway", "Catalog.GatewayServices", gw, "", gwReq, func() any { return &structs.IndexedGatewayServices{} })
		add("gateway", "Internal.GatewayServiceDump", gw, "", gwReq, func() any { return &structs.IndexedServiceDump{} })
	}
	// ---- config entries, intentions
	for _, kind := range []string{structs.ServiceDefaults, structs.ProxyDefaults, structs.ServiceResolver, structs.ServiceSplitter, structs.ServiceRouter,
		structs.IngressGateway, structs.TerminatingGateway, structs.ServiceIntentions, structs.MeshConfig, structs.ExportedServices} {
		kind := kind
		add("config", "ConfigEntry.List", kind, "", func() any { return &structs.ConfigEntryQuery{Datacenter: "dc1", Kind: kind} }, func() any { return &structs.IndexedConfigEntries{} })
	}
	add("config", "ConfigEntry.ListAll", "", "", func() any {
		return &structs.ConfigEntryListAllRequest{Datacenter: "dc1", Kinds: structs.AllConfigEntryKinds}
	}, func() any { return &structs.IndexedGenericConfigEntries{} })
	for _, kn := range [][2]string{{structs.ServiceDefaults, "web"}, {structs.ServiceResolver, "web"}, {structs.ServiceResolver, "api"}, {structs.ProxyDefaults, "global"},
		{structs.ServiceIntentions, "web"}, {structs.ServiceIntentions, "*"}, {structs.IngressGateway, "igw"}, {structs.TerminatingGateway, "tgw"}, {structs.MeshConfig, "mesh"}} {
		kn := kn
		add("config", "ConfigEntry.Get", kn[0]+"/"+kn[1], "", func() any { return &structs.ConfigEntryQuery{Datacenter: "dc1", Kind: kn[0], Name: kn[1]} }, func() any { return &structs.ConfigEntryResponse{} })
		qs[len(qs)-1].Single = true
	}
	add("intention", "Intention.List", "", "", func() any {
		return &structs.IntentionListRequest{Datacenter: "dc1", EnterpriseMeta: *structs.WildcardEnterpriseMetaInDefaultPartition()}
	}, func() any { return &structs.IndexedIntentions{} })
	// ---- prepared queries, coordinates, CA roots
	add("query", "PreparedQuery.List", "", "", dcReq, func() any { return &structs.IndexedPreparedQueries{} })
	add("coordinate", "Coordinate.ListNodes", "", "", dcReq, func() any { return &structs.IndexedCoordinates{} })
	for _, n := range u.Nodes {
		n := n
		add("coordinate", "Coordinate.Node", n, "", func() any { return &structs.NodeSpecificRequest{Datacenter: "dc1", Node: n} }, func() any { return &structs.IndexedCoordinates{} })
	}
	add("ca", "ConnectCA.Roots", "", "", dcReq, func() any { return &structs.IndexedCARoots{} })
	return qs
}

// epTask is one endpoint call parked on the leader's shell.
type epTask struct {
	q        EPQuery
	min      uint64
	received string // NoIdx rendering of what the caller last got
	done     chan struct{}
	out      epResult
}

func (t *epTask) start(fs *fsmServer) {
	t.done = make(chan struct{})
	shell := fs.c.Shell
	if err := consul.VerifServeReads(shell); err != nil {
		panic(err)
	}
	fs.shells[shell] = true
	min := t.min
	go func() {
		defer close(t.done)
		t.out = t.q.Call(shell, min)
	}()
}

// likeConnectHealth: the endpoint is served by one of the connect / ingress health queries of known
// finding C06-connect-health-index-slides-back.
func likeConnectHealth(like string) bool {
	return strings.HasPrefix(like, "CheckConnectServiceNodes") || strings.HasPrefix(like, "CheckIngressServiceNodes") || strings.HasPrefix(like, "ConnectServiceNodes")
}

// diffAt renders two long canonical strings around their first difference.
func diffAt(a, b string, n int) (string, string) {
	i := 0
	for i < len(a) && i < len(b) && a[i] == b[i] {
		i++
	}
	from := i - n/3
	if from < 0 {
		from = 0
	}
	cut := func(s string) string {
		if from >= len(s) {
			return "…(ends)"
		}
		s = s[from:]
		if from > 0 {
			s = "…" + s
		}
		return simkit.Trunc(s, n)
	}
	return cut(a), cut(b)
}
