//go:build verif

package fsmworld

import (
	"context"
	"encoding/hex"
	"encoding/json"
	"errors"
	"fmt"
	"math/rand/v2"
	"regexp"
	"sort"
	"strings"
	"sync"
	"testing"
	"testing/synctest"
	"time"

	"github.com/hashicorp/consul/acl"
	"github.com/hashicorp/consul/agent/consul"
	"github.com/hashicorp/consul/agent/consul/state"
	"github.com/hashicorp/consul/agent/structs"
	"github.com/hashicorp/consul/agent/structs/aclfilter"
	"github.com/hashicorp/consul/internal/verifsim/simkit"
)

// C19: one replication round makes a secondary datacenter equal to the primary.
//
// Two datacenters, each a real FSM behind its own simulated log. The secondary's
// leader shell runs the REAL replication routines (runACLReplicator for policies,
// roles and tokens, and the config entry Replicator) as goroutines inside the
// bubble. The only places where they meet the outside world are seams the
// simulator owns:
//
//   - the list RPC that opens each round (ACL.PolicyList, ACL.RoleList,
//     ACL.TokenList, ConfigEntry.ListAll) is a gate: the routine parks there and the
//     schedule decides which routine runs its next round and when (this is also what
//     a blocking query does: it returns when the primary pleases);
//   - every RPC may fail, may be answered by a lagging server of the primary
//     datacenter (AllowStale), or may be overtaken by primary writes landing between
//     the list and the batch read;
//   - every Raft apply in the secondary may fail before the append or commit and
//     lose its reply.
//
// Checked after each round: a round that reported success although one of its
// calls failed; after a successful round not raced by primary writes the
// replicated set in the secondary (content hashes and ids) equals the primary's as
// listed, local-only objects are byte-identical to before; a round starting from
// an equal state proposes nothing; after a failed round the routine starts over
// from index 0; after the plan, one undisturbed round per type converges.
type C19 struct{}

func (C19) Decode(raw []byte) (simkit.Plan, error) { return DecodePlan(raw) }

var fedTypes = []string{"policies", "roles", "tokens", "config"}

var fedFatText = strings.Repeat("# padding to cross the upsert batch size limit\n", 3000) // ~140 KiB

// fedIDs retires an id once it was deleted: the ACL endpoints never let a deleted policy
// or role id come back (ids are generated), and links to a deleted object are dropped for
// good when the object holding them is read.
type fedIDs struct{ gen map[string]int }

func (f *fedIDs) cur(kind string, n int) int { return n + 10*f.gen[fmt.Sprint(kind, n)] }
func (f *fedIDs) retire(kind string, n int) int {
	c := f.cur(kind, n)
	f.gen[fmt.Sprint(kind, n)]++
	return c
}

func fedACLStep(rng *rand.Rand, g *Gen, local bool, ids *fedIDs) Step {
	n4 := func() int { return 1 + rng.IntN(4) }
	pol := func() string { return PolicyUUID(ids.cur("p", n4())) }
	role := func() string { return RoleUUID(ids.cur("r", n4())) }
	switch simkit.Weighted(rng, []int{25, 8, 14, 6, 30, 10}) {
	case 0:
		id := n4()
		s := Step{Op: "acl.policy.set", ID: PolicyUUID(ids.cur("p", id)), Name: fmt.Sprintf("pol%d", id), Text: g.pick(aclRules)}
		// in the primary: a read-modify-write through the real endpoint (the client sends back what it read, hash included)
		s.Flag2 = !local && simkit.Chance(rng, 30)
		if simkit.Chance(rng, 12) {
			s.Name = fmt.Sprintf("pol%d", n4()) // rename onto another policy's usual name
		}
		if simkit.Chance(rng, 15) {
			s.List = []string{"dc1"}
		}
		if simkit.Chance(rng, 8) {
			s.Text2 = "fat"
		}
		return s
	case 1:
		return Step{Op: "acl.policy.delete", ID: PolicyUUID(ids.retire("p", n4()))}
	case 2:
		id := n4()
		s := Step{Op: "acl.role.set", ID: RoleUUID(ids.cur("r", id)), Name: fmt.Sprintf("role%d", id), List: []string{pol()}}
		if simkit.Chance(rng, 30) {
			s.Svc = g.pick(g.U.Services)
		}
		return s
	case 3:
		return Step{Op: "acl.role.delete", ID: RoleUUID(ids.retire("r", n4()))}
	case 4:
		id := n4()
		if local {
			id = 6 + rng.IntN(2)
		}
		s := Step{Op: "acl.token.set", ID: TokenUUID(id), Text: SecretUUID(id), Flag2: local}
		if !local && simkit.Chance(rng, 12) {
			// a token local to the primary: never replicated
			s.ID, s.Text, s.Flag2 = TokenUUID(5), SecretUUID(5), true
		}
		if simkit.Chance(rng, 70) {
			s.List = []string{pol()}
		}
		if simkit.Chance(rng, 30) {
			s.List2 = []string{role()}
		}
		if simkit.Chance(rng, 20) {
			s.Svc = g.pick(g.U.Services)
		}
		if simkit.Chance(rng, 15) {
			s.N = int64(30 * (1 + rng.IntN(20)))
		}
		s.Text2 = g.pick([]string{"", "a", "b"})
		return s
	default:
		id := n4()
		if local {
			id = 6 + rng.IntN(2)
		}
		return Step{Op: "acl.token.delete", ID: TokenUUID(id)}
	}
}

func (C19) Generate(rng *rand.Rand, tier string, runIdx uint64) simkit.Plan {
	u := DefaultUniverse()
	g := NewGen(rng, u, Weights{})
	p := &Plan{Cfg: Cfg{GCTTL: "15m", GCGran: "30s", Extra: map[string]string{}}}
	ids := &fedIDs{gen: map[string]int{}}
	faulty := simkit.Chance(rng, 60)
	stale := simkit.Chance(rng, 35)
	caseVariants := simkit.Chance(rng, 40)
	p.Cfg.Extra["faults"] = fmt.Sprint(faulty)
	primaryOp := func() Step {
		if simkit.Chance(rng, 45) {
			text := g.ConfigEntryJSON()
			if caseVariants && simkit.Chance(rng, 20) {
				// the store keys config entries by lower-cased name: "Web" overwrites "web" in place
				var m M
				json.Unmarshal([]byte(text), &m)
				if n, _ := m["Name"].(string); n != "" && m["Kind"] != "proxy-defaults" && m["Kind"] != "exported-services" {
					m["Name"] = strings.ToUpper(n[:1]) + n[1:]
					text = mustJSON(m)
				}
			}
			return Step{Op: simkit.Pick(rng, []string{"ce.upsert", "ce.upsert", "ce.upsert", "ce.delete"}), Text: text}
		}
		return fedACLStep(rng, g, false, ids)
	}
	secOp := func(replicated bool) Step {
		var s Step
		if replicated {
			s = primaryOp()
			// exported-services entries are never written to a secondary (writes are forwarded
			// to the primary and that kind is not replicated)
			for strings.Contains(s.Text, `"Kind":"exported-services"`) {
				s = primaryOp()
			}
		} else {
			s = fedACLStep(rng, g, true, ids)
			for !strings.HasPrefix(s.Op, "acl.token") {
				s = fedACLStep(rng, g, true, ids)
			}
		}
		s.Op = "sec:" + s.Op
		return s
	}
	round := func() Step {
		s := Step{Op: "fed.round", Name: simkit.Pick(rng, fedTypes), M: int64(1 + rng.IntN(3))}
		if faulty && simkit.Chance(rng, 55) {
			n := 1 + rng.IntN(6)
			for i := 0; i < n; i++ {
				f := ""
				if simkit.Chance(rng, 35) {
					kinds := []string{"fail", "not-leader", "lost-reply", "mid", "mid", "redact"}
					if stale {
						kinds = append(kinds, "stale", "stale")
					}
					f = simkit.Pick(rng, kinds)
				}
				s.List = append(s.List, f)
			}
		}
		return s
	}
	// prelude: the primary has some history, the secondary some unrelated or diverged content
	for i, n := 0, 3+rng.IntN(12); i < n; i++ {
		p.Steps = append(p.Steps, primaryOp())
	}
	for i, n := 0, rng.IntN(6); i < n; i++ {
		p.Steps = append(p.Steps, secOp(simkit.Chance(rng, 70)))
	}
	n := 8 + rng.IntN(40)
	for len(p.Steps) < n {
		switch simkit.Weighted(rng, []int{50, 32, 5, 6, 3, 4, 4}) {
		case 6:
			// two policies (or roles) change, and one of them disappears between the list and the batch read
			// of the round that fetches both: the round is racy, the one after it must still end equal
			a, b := 1+rng.IntN(3), 0
			b = a + 1 + rng.IntN(4-a)
			if simkit.Chance(rng, 50) {
				a, b = b, a
			}
			if simkit.Chance(rng, 60) {
				p.Steps = append(p.Steps,
					Step{Op: "acl.policy.set", ID: PolicyUUID(ids.cur("p", a)), Name: fmt.Sprintf("pol%d", a), Text: g.pick(aclRules)},
					Step{Op: "acl.policy.set", ID: PolicyUUID(ids.cur("p", b)), Name: fmt.Sprintf("pol%d", b), Text: g.pick(aclRules)},
					Step{Op: "fed.round", Name: "policies", M: 1, List: []string{"", "mid"}},
					Step{Op: "acl.policy.delete", ID: PolicyUUID(ids.retire("p", a))},
					Step{Op: "fed.round", Name: "policies", M: 2})
			} else {
				p.Steps = append(p.Steps,
					Step{Op: "acl.role.set", ID: RoleUUID(ids.cur("r", a)), Name: fmt.Sprintf("role%d", a), Svc: g.pick(g.U.Services)},
					Step{Op: "acl.role.set", ID: RoleUUID(ids.cur("r", b)), Name: fmt.Sprintf("role%d", b), Svc: g.pick(g.U.Services)},
					Step{Op: "fed.round", Name: "roles", M: 1, List: []string{"", "mid"}},
					Step{Op: "acl.role.delete", ID: RoleUUID(ids.retire("r", a))},
					Step{Op: "fed.round", Name: "roles", M: 2})
			}
		case 0:
			p.Steps = append(p.Steps, primaryOp())
		case 1:
			p.Steps = append(p.Steps, round())
		case 2:
			p.Steps = append(p.Steps, Step{Op: "advance", Dur: simkit.Pick(rng, []string{"1s", "20s", "3m", "15m"})})
		case 3:
			p.Steps = append(p.Steps, secOp(false))
		case 4:
			p.Steps = append(p.Steps, secOp(true)) // forces new routines (as after a leader change)
		case 5:
			p.Steps = append(p.Steps, Step{Op: "fed.restart"})
		}
	}
	return p
}

func (w C19) Execute(t *testing.T, pl simkit.Plan, r *simkit.Run) (v *simkit.Violation) {
	if err := simkit.Bubble(t, func() { v = w.execute(pl.(*Plan), r) }); err != nil {
		return &simkit.Violation{Class: "harness-panic", Invariant: "no-escaped-panic", Detail: err.Error()}
	}
	return v
}

type fedLoop struct {
	name     string
	gate     chan struct{}
	atGate   bool
	arrivals int
	minIdx   uint64 // MinQueryIndex of the list request parked at the gate
	cancel   context.CancelFunc
	ctx      context.Context
	done     chan struct{}
	// the round in flight / just finished
	servedIdx uint64
	listTime  time.Time
}

type fedWorld struct {
	r    *simkit.Run
	P, S *Cluster
	PF   *Replica // a lagging server of the primary datacenter
	pfAt int

	mu    sync.Mutex
	loops map[string]*fedLoop

	steps []Step
	pc    int

	// current round
	cur       *fedLoop
	faults    []string
	call      int
	lag       int
	midLeft   int
	hookErr   string
	racy      string
	proposals int
	applied   int
	fatal     *simkit.Violation
	lastSucc  bool
	refused   []*structs.ConfigEntryRequest // config entry requests the secondary's FSM refused in this round
}

var fedListMethods = map[string]string{"ACL.PolicyList": "policies", "ACL.RoleList": "roles", "ACL.TokenList": "tokens", "ConfigEntry.ListAll": "config"}

func (w *fedWorld) startLoop(name string) {
	l := &fedLoop{name: name, done: make(chan struct{})}
	l.ctx, l.cancel = context.WithCancel(context.Background())
	w.mu.Lock()
	w.loops[name] = l
	w.mu.Unlock()
	go func() {
		defer close(l.done)
		consul.VerifRunReplicator(l.ctx, w.S.Shell, name)
	}()
}

func (w *fedWorld) stopLoop(name string) {
	w.mu.Lock()
	l := w.loops[name]
	w.mu.Unlock()
	if l == nil {
		return
	}
	l.cancel()
	for i := 0; i < 400; i++ {
		synctest.Wait()
		select {
		case <-l.done:
			return
		default:
		}
		if w.S.HasPending() {
			w.S.FailPending()
			continue
		}
		time.Sleep(500 * time.Millisecond)
	}
	panic("replication routine " + name + " did not stop after its context was cancelled")
}

func (w *fedWorld) restartAll() {
	for _, n := range fedTypes {
		w.stopLoop(n)
	}
	for _, n := range fedTypes {
		w.startLoop(n)
	}
	w.settle()
	w.r.Hit("probe.routines-restarted")
}

// settle waits until every routine is parked at its gate.
func (w *fedWorld) settle() {
	for i := 0; i < 2000; i++ {
		synctest.Wait()
		all := true
		w.mu.Lock()
		for _, l := range w.loops {
			all = all && l.atGate
		}
		w.mu.Unlock()
		if all {
			return
		}
		if w.S.HasPending() {
			panic("replication routine proposed outside a scheduled round")
		}
		time.Sleep(500 * time.Millisecond)
	}
	panic("replication routines did not reach their gates")
}

func (w *fedWorld) nextFault(site string) string {
	f := ""
	if w.call < len(w.faults) {
		f = w.faults[w.call]
	}
	w.call++
	if f != "" {
		w.r.Eventf("  call %d %s fault=%s", w.call, site, f)
	}
	return f
}

func queryMinIndex(args any) uint64 {
	switch a := args.(type) {
	case *structs.ACLPolicyListRequest:
		return a.MinQueryIndex
	case *structs.ACLRoleListRequest:
		return a.MinQueryIndex
	case *structs.ACLTokenListRequest:
		return a.MinQueryIndex
	case *structs.ConfigEntryListAllRequest:
		return a.MinQueryIndex
	}
	panic(fmt.Sprintf("unexpected list request %T", args))
}

// wire passes a value through the RPC codec, as the real call would.
func wire(in, out any) {
	buf, err := structs.Encode(0, in)
	if err != nil {
		panic(err)
	}
	if err := structs.Decode(buf[1:], out); err != nil {
		panic(err)
	}
}

func (w *fedWorld) rpc(_ context.Context, method string, args, reply interface{}) error {
	typ, isList := fedListMethods[method]
	var l *fedLoop
	if isList {
		w.mu.Lock()
		l = w.loops[typ]
		l.atGate = true
		l.arrivals++
		l.minIdx = queryMinIndex(args)
		l.gate = make(chan struct{})
		gate := l.gate
		w.mu.Unlock()
		select {
		case <-gate:
		case <-l.ctx.Done():
			return errors.New("rpc error: shutting down")
		}
		w.mu.Lock()
		l.atGate = false
		w.mu.Unlock()
	}
	// From here on the routine runs alone: the scheduler is waiting for it.
	f := w.nextFault("rpc " + method)
	stale := false
	switch f {
	case "fail", "not-leader", "lost-reply":
		w.hookErr = "rpc " + method + " failed"
		w.r.Hit("fault.rpc-fail")
		return errors.New("rpc error making call: simulated transport failure")
	case "mid":
		w.midWrite()
	case "stale":
		stale = true
	}
	st := w.P.L.State()
	if stale && w.staleServer() {
		st = w.PF.State()
		w.r.Hit("fault.rpc-served-stale")
		w.racy = "an RPC was served by a lagging primary server"
	}
	err := w.serve(st, method, args, reply, f == "redact")
	if isList && err == nil {
		l.servedIdx = replyIndex(reply)
		l.listTime = time.Now()
	}
	return err
}

// staleServer brings the lagging server to its next position; false if it is not behind.
func (w *fedWorld) staleServer() bool {
	if w.PF == nil {
		w.PF = NewReplica("primary-follower", w.P.GCTTL, w.P.GCGran)
	}
	target := len(w.P.Log) - w.lag
	if target < w.pfAt {
		target = w.pfAt
	}
	for ; w.pfAt < target; w.pfAt++ {
		if _, perr := w.PF.Apply(w.P.Log[w.pfAt]); perr != nil {
			panic(perr)
		}
	}
	return w.pfAt < len(w.P.Log)
}

// midWrite lets the next primary write(s) of the plan land right now, between two RPCs of a round.
func (w *fedWorld) midWrite() {
	for w.midLeft > 0 && w.pc+1 < len(w.steps) && isPrimaryWrite(w.steps[w.pc+1]) {
		w.pc++
		w.midLeft--
		n := len(w.P.Log)
		w.r.Eventf("  mid-round primary write: %s", w.steps[w.pc].Short())
		w.P.DoNoDrain(w.steps[w.pc])
		if len(w.P.Log) > n {
			w.racy = "the primary changed between two calls of the round"
			w.r.Hit("fault.primary-write-mid-round")
		}
		return
	}
}

func isPrimaryWrite(s Step) bool {
	return strings.HasPrefix(s.Op, "acl.") || strings.HasPrefix(s.Op, "ce.")
}

func replyIndex(reply any) uint64 {
	switch r := reply.(type) {
	case *structs.ACLPolicyListResponse:
		return r.Index
	case *structs.ACLRoleListResponse:
		return r.Index
	case *structs.ACLTokenListResponse:
		return r.Index
	case *structs.IndexedGenericConfigEntries:
		return r.Index
	}
	return 0
}

func atLeastOne(i uint64) uint64 {
	if i < 1 {
		return 1
	}
	return i
}

// serve answers the primary datacenter's read endpoints from a primary server's store
// (what the endpoints compute; ACL filtering with a replication token that may read everything).
func (w *fedWorld) serve(st *state.Store, method string, args, reply interface{}, redact bool) error {
	switch method {
	case "ACL.PolicyList":
		a := args.(*structs.ACLPolicyListRequest)
		idx, ps, err := st.ACLPolicyList(nil, &a.EnterpriseMeta)
		if err != nil {
			return err
		}
		var out structs.ACLPolicyListResponse
		for _, p := range ps {
			out.Policies = append(out.Policies, p.Stub())
		}
		out.Index = atLeastOne(idx)
		wire(&out, reply)
	case "ACL.PolicyBatchRead":
		a := args.(*structs.ACLPolicyBatchGetRequest)
		idx, ps, err := st.ACLPolicyBatchGet(nil, a.PolicyIDs)
		if err != nil {
			return err
		}
		out := structs.ACLPolicyBatchResponse{Policies: ps}
		out.Index = atLeastOne(idx)
		wire(&out, reply)
	case "ACL.RoleList":
		a := args.(*structs.ACLRoleListRequest)
		idx, rs, err := st.ACLRoleList(nil, a.Policy, &a.EnterpriseMeta)
		if err != nil {
			return err
		}
		out := structs.ACLRoleListResponse{Roles: rs}
		out.Index = atLeastOne(idx)
		wire(&out, reply)
	case "ACL.TokenList":
		a := args.(*structs.ACLTokenListRequest)
		idx, ts, err := st.ACLTokenListWithParameters(nil, state.ACLTokenListParameters{Local: a.IncludeLocal, Global: a.IncludeGlobal, EnterpriseMeta: &a.EnterpriseMeta})
		if err != nil {
			return err
		}
		var out structs.ACLTokenListResponse
		now := time.Now()
		for _, t := range ts {
			if t.IsExpired(now) {
				continue
			}
			out.Tokens = append(out.Tokens, t.Stub())
		}
		out.Index = atLeastOne(idx)
		wire(&out, reply)
	case "ACL.TokenBatchRead":
		a := args.(*structs.ACLTokenBatchGetRequest)
		idx, ts, err := st.ACLTokenBatchGet(nil, a.AccessorIDs)
		if err != nil {
			return err
		}
		out := structs.ACLTokenBatchResponse{}
		for _, t := range ts {
			c := t.Clone()
			if redact {
				c.SecretID = aclfilter.RedactedToken
				out.Redacted = true
				w.r.Hit("fault.token-secrets-redacted")
			}
			out.Tokens = append(out.Tokens, c)
		}
		out.Index = atLeastOne(idx)
		wire(&out, reply)
	case "ConfigEntry.ListAll":
		a := args.(*structs.ConfigEntryListAllRequest)
		idx, es, err := st.ConfigEntries(nil, &a.EnterpriseMeta)
		if err != nil {
			return err
		}
		kinds := map[string]bool{}
		for _, k := range a.Kinds {
			kinds[k] = true
		}
		out := structs.IndexedGenericConfigEntries{}
		for _, e := range es {
			if kinds[e.GetKind()] {
				out.Entries = append(out.Entries, e)
			}
		}
		out.Index = atLeastOne(idx)
		wire(&out, reply)
	default:
		panic("secondary made an RPC the simulated primary does not serve: " + method)
	}
	return nil
}

// ---- sets compared between the datacenters

func hx(b []byte) string { return hex.EncodeToString(b) }

func linkIDs[T any](xs []T, live map[string]bool, id func(T) string) string {
	var out []string
	for _, x := range xs {
		if live[id(x)] {
			out = append(out, id(x))
		}
	}
	sort.Strings(out)
	return strings.Join(out, ",")
}

// fedSet: id -> content of the replicated objects of one type, read from the raw tables.
func fedSet(st *state.Store, typ string, expiredAt *time.Time, primary *state.Store) map[string]string {
	out := map[string]string{}
	// links to policies and roles the primary does not hold are dropped whenever the object is
	// read (and ids never come back): they carry no meaning and are not compared
	live := map[string]bool{}
	primary.WalkAllTables(func(table string, item interface{}) bool {
		switch table {
		case "acl-policies":
			live[item.(*structs.ACLPolicy).ID] = true
		case "acl-roles":
			live[item.(*structs.ACLRole).ID] = true
		}
		return true
	})
	switch typ {
	case "config":
		_, es, err := st.ConfigEntries(nil, structs.WildcardEnterpriseMetaInDefaultPartition())
		if err != nil {
			panic(err)
		}
		for _, e := range es {
			if e.GetKind() == structs.ExportedServices {
				continue // only apply to the primary datacenter, never replicated
			}
			out[e.GetKind()+"/"+e.GetName()] = fmt.Sprintf("hash=%d %s", e.GetHash(), simkit.Canon(e, "RaftIndex", "Hash"))
		}
		return out
	}
	st.WalkAllTables(func(table string, item interface{}) bool {
		switch {
		case table == "acl-policies" && typ == "policies":
			p := item.(*structs.ACLPolicy)
			out[p.ID] = fmt.Sprintf("name=%s rules=%q dcs=%v desc=%d hash=%s", p.Name, p.Rules, p.Datacenters, len(p.Description), hx(p.Hash))
		case table == "acl-roles" && typ == "roles":
			r := item.(*structs.ACLRole)
			out[r.ID] = fmt.Sprintf("name=%s desc=%q policies=%s svc=%d hash=%s", r.Name, r.Description,
				linkIDs(r.Policies, live, func(l structs.ACLRolePolicyLink) string { return l.ID }), len(r.ServiceIdentities), hx(r.Hash))
		case table == "acl-tokens" && typ == "tokens":
			t := item.(*structs.ACLToken)
			if t.Local {
				return true
			}
			if expiredAt != nil && t.IsExpired(*expiredAt) {
				return true
			}
			exp := "never"
			if t.ExpirationTime != nil {
				exp = fmt.Sprint(t.ExpirationTime.UnixNano())
			}
			out[t.AccessorID] = fmt.Sprintf("secret=%s desc=%q policies=%s roles=%s svc=%d exp=%s hash=%s", t.SecretID, t.Description,
				linkIDs(t.Policies, live, func(l structs.ACLTokenPolicyLink) string { return l.ID }),
				linkIDs(t.Roles, live, func(l structs.ACLTokenRoleLink) string { return l.ID }), len(t.ServiceIdentities), exp, hx(t.Hash))
		}
		return true
	})
	return out
}

// fedLocalOnly: everything in the secondary that replication must not touch.
func fedLocalOnly(st *state.Store) string {
	var rows []string
	st.WalkAllTables(func(table string, item interface{}) bool {
		switch table {
		case "acl-tokens":
			if t := item.(*structs.ACLToken); t.Local {
				rows = append(rows, simkit.Canon(t))
			}
		case "acl-auth-methods", "acl-binding-rules", "kvs", "nodes", "services", "checks":
			rows = append(rows, table+": "+simkit.Canon(item))
		}
		return true
	})
	sort.Strings(rows)
	return strings.Join(rows, "\n")
}

func setDiff(want, got map[string]string) string {
	var out []string
	for _, k := range simkit.SortedKeys(want) {
		if g, ok := got[k]; !ok {
			out = append(out, fmt.Sprintf("missing in secondary: %s {%s}", k, simkit.Trunc(want[k], 260)))
		} else if g != want[k] {
			w := want[k]
			i := 0
			for i < len(w) && i < len(g) && w[i] == g[i] {
				i++
			}
			from := i - 160
			if from < 0 {
				from = 0
			}
			cut := func(x string) string {
				to := i + 240
				if to > len(x) {
					to = len(x)
				}
				return x[from:to]
			}
			out = append(out, fmt.Sprintf("differs: %s (first difference at byte %d)\n      primary   {...%s...}\n      secondary {...%s...}", k, i, cut(w), cut(g)))
		}
	}
	for _, k := range simkit.SortedKeys(got) {
		if _, ok := want[k]; !ok {
			out = append(out, fmt.Sprintf("only in secondary: %s {%s}", k, simkit.Trunc(got[k], 260)))
		}
	}
	return strings.Join(out, "\n    ")
}

var expRe = regexp.MustCompile(` exp=\S+`)

func stripExp(m map[string]string) map[string]string {
	out := map[string]string{}
	for k, v := range m {
		out[k] = expRe.ReplaceAllString(v, "")
	}
	return out
}

func setString(m map[string]string) string {
	var out []string
	for _, k := range simkit.SortedKeys(m) {
		out = append(out, k+"="+m[k])
	}
	return strings.Join(out, "\n")
}

// round lets one routine run exactly one replication round and judges it.
func (w *fedWorld) round(i int, s Step, final bool) *simkit.Violation {
	mk := func(class, inv, detail string) *simkit.Violation {
		return &simkit.Violation{Property: "C19", Class: class, Invariant: inv, Step: i, Culprit: "round:" + s.Name, Detail: detail}
	}
	w.mu.Lock()
	l := w.loops[s.Name]
	w.mu.Unlock()
	if l == nil || !l.atGate {
		panic("routine not at its gate: " + s.Name)
	}
	w.cur, w.faults, w.call, w.hookErr, w.racy, w.proposals, w.applied = l, s.List, 0, "", "", 0, 0
	w.lag, w.midLeft = int(s.M), int(s.M)
	w.refused = nil
	l.servedIdx = 0
	preTime := time.Now()
	wantBefore := fedSet(w.P.L.State(), s.Name, &preTime, w.P.L.State())
	gotBefore := fedSet(w.S.L.State(), s.Name, nil, w.P.L.State())
	localBefore := fedLocalOnly(w.S.L.State())
	minIdx := l.minIdx
	arrivals := l.arrivals
	w.r.Eventf("round %s start lastRemoteIndex=%d faults=%v", s.Name, minIdx, s.List)
	close(l.gate)
	// pump: the routine runs; its Raft applies are processed here in order
	ok := false
	for n := 0; n < 4000; n++ {
		synctest.Wait()
		if w.S.HasPending() {
			w.S.DrainBackground()
			w.S.ClearLostReply()
			continue
		}
		w.mu.Lock()
		ok = l.atGate && l.arrivals > arrivals
		w.mu.Unlock()
		if ok {
			break
		}
		time.Sleep(250 * time.Millisecond)
	}
	if !ok {
		panic("replication routine " + s.Name + " did not come back to its gate")
	}
	if w.S.Fatal != nil {
		return mk("panic", "apply-does-not-panic", w.S.Fatal.Error())
	}
	succ := l.servedIdx != 0 && l.minIdx == l.servedIdx
	w.lastSucc = succ
	w.r.Eventf("round %s end success=%v next lastRemoteIndex=%d proposals=%d hookErr=%q racy=%q", s.Name, succ, l.minIdx, w.proposals, w.hookErr, w.racy)
	w.r.Sig(fmt.Sprintf("round:%s:%v:%d:%v:%v", s.Name, succ, w.proposals, w.hookErr != "", w.racy != ""))
	w.r.Hit("probe.rounds")
	if succ {
		w.r.Hit("probe.rounds-succeeded")
	}
	if w.proposals > 0 {
		w.r.Hit("probe.rounds-that-wrote")
	}
	// 1. bookkeeping of the routine
	if w.hookErr != "" && l.minIdx != 0 {
		return mk("index-advanced-on-failure", "failed-round-starts-over",
			fmt.Sprintf("%s during the round, yet the routine asks for changes after remote index %d next (it should start over from 0; listed index was %d)", w.hookErr, l.minIdx, l.servedIdx))
	}
	// 2. nothing local-only was touched
	if after := fedLocalOnly(w.S.L.State()); after != localBefore {
		return mk("replication-interference", "local-only-objects-untouched", "objects that are not replicated changed during the round:\n  before:\n"+simkit.Trunc(localBefore, 1500)+"\n  after:\n"+simkit.Trunc(after, 1500))
	}
	// redacted secrets must never be stored
	for id, row := range fedSet(w.S.L.State(), "tokens", nil, w.P.L.State()) {
		if strings.Contains(row, "secret="+aclfilter.RedactedToken) {
			return mk("replication-mismatch", "redacted-secrets-never-stored", "token "+id+" was stored with a redacted secret")
		}
	}
	if !succ {
		if final && s.N > 1 {
			// Config entries are applied one by one in kind/name order and each is validated against
			// what the secondary holds at that moment, so an entry can be refused until a later one
			// of the same round is in (ingress-gateway before proxy-defaults): every refused round
			// still applies the rest, and a bounded number of undisturbed rounds must converge.
			w.r.Hit("probe.undisturbed-round-needed-retry")
			return nil
		}
		if final && s.Name == "config" && w.primaryWouldRefuseToo() {
			// known finding C19-primary-holds-config-entries-it-would-refuse-now
			w.r.Hit("known-finding.C19-primary-holds-config-entries-it-would-refuse-now")
			return nil
		}
		if final && w.nameReuseBlocks(s.Name) {
			// known finding C19-name-reuse-blocks-replication
			w.r.Hit("known-finding.C19-name-reuse-blocks-replication")
			return nil
		}
		if final {
			return mk("no-convergence", "undisturbed-round-succeeds", fmt.Sprintf("a round of %s without any fault or concurrent primary write failed (next lastRemoteIndex=%d, listed index %d, %d proposals)", s.Name, l.minIdx, l.servedIdx, w.proposals))
		}
		return nil
	}
	if w.racy != "" {
		w.r.Hit("probe.rounds-racy")
		return nil
	}
	// 3. equality with the primary as listed
	want := fedSet(w.P.L.State(), s.Name, &l.listTime, w.P.L.State())
	got := fedSet(w.S.L.State(), s.Name, nil, w.P.L.State())
	d := setDiff(want, got)
	if d != "" && s.Name == "tokens" && setDiff(stripExp(want), stripExp(got)) == "" {
		// known finding C19-token-recreated-with-other-expiration-not-replicated
		w.r.Hit("known-finding.C19-token-recreated-with-other-expiration-not-replicated")
		d = ""
		want = got
	}
	if d != "" {
		return mk("replication-mismatch", "secondary-equals-primary-after-successful-round",
			fmt.Sprintf("round of %s succeeded (lastRemoteIndex %d -> %d, %d proposals) but the secondary differs from the primary:\n    %s", s.Name, minIdx, l.minIdx, w.proposals, d))
	}
	w.r.Hit("probe.equality-checked")
	// 4. an equal secondary produces no writes
	if setString(wantBefore) == setString(gotBefore) && setString(want) == setString(wantBefore) {
		w.r.Hit("probe.idempotence-checked")
		if w.proposals != 0 {
			return mk("replication-churn", "equal-secondary-produces-no-writes", fmt.Sprintf("the secondary already equalled the primary, yet the round of %s proposed %d log entries", s.Name, w.proposals))
		}
	}
	return nil
}

// primaryWouldRefuseToo: every config entry the secondary refused in this round is an upsert
// that the primary datacenter itself would refuse if it were written now (the primary accepted
// it at an earlier point of its history and validated nothing when the entries it depends on
// changed afterwards). Such a set cannot be rebuilt entry by entry in any order of the list.
func (w *fedWorld) primaryWouldRefuseToo() bool {
	if len(w.refused) == 0 {
		return false
	}
	probe := NewReplica("primary-probe", w.P.GCTTL, w.P.GCGran)
	for _, e := range w.P.Log {
		if _, perr := probe.Apply(e); perr != nil {
			panic(perr)
		}
	}
	next := w.P.Log[len(w.P.Log)-1].Index + 1
	for _, req := range w.refused {
		if req.Op != structs.ConfigEntryUpsert {
			return false
		}
		buf, err := structs.Encode(structs.ConfigEntryRequestType, &structs.ConfigEntryRequest{Op: structs.ConfigEntryUpsert, Datacenter: "dc1", Entry: req.Entry})
		if err != nil {
			panic(err)
		}
		resp, perr := probe.Apply(Entry{Index: next, Data: buf, Desc: "probe"})
		next++
		if perr != nil {
			panic(perr)
		}
		if _, isErr := resp.(error); !isErr {
			return false
		}
	}
	return true
}

// nameReuseBlocks: a primary policy (role) carries a name that, in the secondary, still
// belongs to another policy (role) which the primary has renamed. The upserts are applied in
// id order inside one transaction that refuses duplicate names, so when the new holder of the
// name sorts first the batch fails, in every round.
func (w *fedWorld) nameReuseBlocks(typ string) bool {
	names := func(st *state.Store) map[string]string { // id -> name
		out := map[string]string{}
		st.WalkAllTables(func(table string, item interface{}) bool {
			switch {
			case table == "acl-policies" && typ == "policies":
				out[item.(*structs.ACLPolicy).ID] = item.(*structs.ACLPolicy).Name
			case table == "acl-roles" && typ == "roles":
				out[item.(*structs.ACLRole).ID] = item.(*structs.ACLRole).Name
			}
			return true
		})
		return out
	}
	prim, sec := names(w.P.L.State()), names(w.S.L.State())
	for id, name := range prim {
		for sid, sname := range sec {
			if sid != id && sname == name && prim[sid] != "" && prim[sid] != name && sec[id] != name {
				return true
			}
		}
	}
	return false
}

func (C19) execute(p *Plan, r *simkit.Run) *simkit.Violation {
	w := &fedWorld{r: r, loops: map[string]*fedLoop{}, steps: p.Steps}
	w.P = NewCluster(r, parseDur(p.Cfg.GCTTL, 15*time.Minute), parseDur(p.Cfg.GCGran, 30*time.Second))
	// the primary's leader resolves tokens: some policy updates go through its real ACL.PolicySet endpoint
	if err := consul.VerifEnableACLs(w.P.Shell, consul.ACLResolverSettings{ACLsEnabled: true, Datacenter: "dc1", NodeName: "sim", ACLPolicyTTL: 30 * time.Second,
		ACLTokenTTL: 30 * time.Second, ACLRoleTTL: 30 * time.Second, ACLDownPolicy: "extend-cache", ACLDefaultPolicy: "deny"}); err != nil {
		panic(err)
	}
	defer w.P.Close()
	w.S = NewClusterDC(r, parseDur(p.Cfg.GCTTL, 15*time.Minute), parseDur(p.Cfg.GCGran, 30*time.Second), consul.VerifShellConfig("dc2", "dc1"), w.rpc)
	defer w.S.Close()
	consul.VerifSetReplicationToken(w.S.Shell, "replication-token")
	w.S.OnCommit = func(e Entry, resp any) {
		w.applied++
		if _, isErr := resp.(error); !isErr || len(e.Data) == 0 || structs.MessageType(e.Data[0]) != structs.ConfigEntryRequestType {
			return
		}
		var req structs.ConfigEntryRequest
		if err := structs.Decode(e.Data[1:], &req); err != nil {
			panic(err)
		}
		w.refused = append(w.refused, &req)
	}
	w.S.BgFault = func(t structs.MessageType) (string, string) {
		w.proposals++
		f := w.nextFault(fmt.Sprintf("apply type=%d", t))
		name := "?"
		if w.cur != nil {
			name = w.cur.name
		}
		switch f {
		case "fail", "not-leader":
			w.hookErr = "a Raft apply failed (not leader)"
			return "not-leader", "replicate(" + name + ")"
		case "lost-reply":
			w.hookErr = "a Raft apply lost its reply"
			return "lost-reply", "replicate(" + name + ")"
		}
		return "", "replicate(" + name + ")"
	}
	for _, n := range fedTypes {
		w.startLoop(n)
	}
	defer func() {
		for _, n := range fedTypes {
			w.stopLoop(n)
		}
	}()
	w.settle()
	dirty := false
	for w.pc = 0; w.pc < len(w.steps); w.pc++ {
		i := w.pc
		s := w.steps[i]
		r.Steps++
		switch {
		case s.Op == "fed.round":
			if dirty {
				w.restartAll()
				dirty = false
			}
			if v := w.round(i, s, false); v != nil {
				return v
			}
		case s.Op == "fed.restart":
			w.restartAll()
			dirty = false
		case strings.HasPrefix(s.Op, "sec:"):
			t := s
			t.Op = strings.TrimPrefix(s.Op, "sec:")
			r.Sig(s.Op)
			n := len(w.S.Log)
			w.S.Do(t)
			if w.S.Fatal != nil {
				return &simkit.Violation{Property: "C19", Class: "panic", Invariant: "apply-does-not-panic", Step: i, Culprit: s.Op, Detail: w.S.Fatal.Error()}
			}
			if len(w.S.Log) > n && !(strings.HasPrefix(t.Op, "acl.token") && t.Flag2) {
				// the secondary's replicated tables were changed behind the routines' back:
				// their last remote index no longer describes what the secondary holds
				dirty = true
			}
		default:
			r.Sig(s.Op)
			if !(s.Op == "acl.policy.set" && s.Flag2 && w.P.PolicyRMW(s)) {
				w.P.Do(s)
			}
			if w.P.Fatal != nil {
				return &simkit.Violation{Property: "C19", Class: "panic", Invariant: "apply-does-not-panic", Step: i, Culprit: s.Op, Detail: w.P.Fatal.Error()}
			}
		}
	}
	// bounded liveness: with faults over, one undisturbed round per type converges
	if dirty {
		w.restartAll()
	}
	for _, n := range fedTypes {
		budget := int64(1)
		if n == "config" {
			budget = 4
		}
		for ; budget >= 1; budget-- {
			if v := w.round(len(w.steps), Step{Op: "fed.round", Name: n, N: budget}, true); v != nil {
				return v
			}
			if w.lastSucc {
				break
			}
		}
	}
	r.Hit("probe.final-convergence-checked")
	r.Nontrivial = len(w.P.Log) >= 3
	return nil
}

var _ = acl.WildcardName
