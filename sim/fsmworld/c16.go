//go:build verif

package fsmworld

import (
	"context"
	"errors"
	"fmt"
	"math/rand/v2"
	"sort"
	"strings"
	"sync"
	"testing"
	"testing/synctest"
	"time"

	"github.com/hashicorp/go-hclog"

	"github.com/hashicorp/consul/acl"
	"github.com/hashicorp/consul/acl/resolver"
	"github.com/hashicorp/consul/agent/ae"
	"github.com/hashicorp/consul/agent/consul"
	"github.com/hashicorp/consul/agent/local"
	"github.com/hashicorp/consul/agent/structs"
	"github.com/hashicorp/consul/agent/token"
	"github.com/hashicorp/consul/internal/verifsim/simkit"
	"github.com/hashicorp/consul/types"
)

// C16: anti-entropy makes the catalog converge to the agent's local state.
//
// The real local.State and the real ae.StateSyncer loop (as a goroutine on the
// fake clock, its stagger drawn from the run's PRNG) talk to a catalog that is a
// real FSM behind the simulated log. The agent's Delegate is the seam: every
// Catalog.NodeServiceList / Health.NodeChecks / Catalog.Register /
// Catalog.Deregister call may fail before reaching the server, be applied and
// lose its reply, or be refused for an entry the (simulated) token may not write;
// local registrations may change between the remote fetch and the diff. The
// catalog drifts behind the agent's back (entries added, removed, altered).
//
// After EVERY sync (full or partial, failed or not), from the raw bookkeeping:
//   - an entry marked in-sync is held by the catalog with the same content, unless
//     its registration was refused by ACLs or the catalog drifted since the fetch;
//   - a catalog entry of this node that is not registered locally is scheduled for
//     deletion (a local deregistration is never forgotten);
//   - after a successful full sync without concurrent local change the catalog's
//     services and checks of the node equal the local ones (except refused ones).
//
// After the plan: faults and refusals off, and within interval + stagger + retry
// interval of simulated time the catalog equals the local state.
type C16 struct{}

func (C16) Decode(raw []byte) (simkit.Plan, error) { return DecodePlan(raw) }

const agNode = "agent1"

var agNodeID = types.NodeID("a9e47000-0000-4000-8000-000000000001")

var agServices = []string{"web1", "web2", "api1", "db1"}
var agChecks = []string{"c-node", "c-web1", "c-web1b", "c-api1", "c-db1"}

func agServiceName(id string) string { return strings.TrimRight(id, "0123456789") }
func agCheckService(id string) string {
	switch id {
	case "c-web1", "c-web1b":
		return "web1"
	case "c-api1":
		return "api1"
	case "c-db1":
		return "db1"
	}
	return ""
}

func (C16) Generate(rng *rand.Rand, tier string, runIdx uint64) simkit.Plan {
	p := &Plan{Cfg: Cfg{GCTTL: "15m", GCGran: "30s", Extra: map[string]string{}}}
	p.Cfg.Extra["stagger_seed"] = fmt.Sprint(rng.Uint32())
	p.Cfg.Extra["interval"] = simkit.Pick(rng, []string{"30s", "1m", "2m"})
	faulty := simkit.Chance(rng, 65)
	if simkit.Chance(rng, 50) {
		// output-only check updates are written back after a delay (CheckUpdateInterval; one nanosecond here, which
		// makes the library's random stagger zero): the window closes at the next advance of the clock
		p.Cfg.Extra["defer"] = "on"
	}
	status := func() string { return simkit.Pick(rng, []string{"passing", "warning", "critical"}) }
	svcStep := func(op string) Step {
		id := simkit.Pick(rng, agServices)
		s := Step{Op: op, SvcID: id, Svc: agServiceName(id), Port: 8000 + rng.IntN(3)}
		if simkit.Chance(rng, 40) {
			s.Tags = []string{simkit.Pick(rng, []string{"v1", "v2"})}
		}
		if simkit.Chance(rng, 15) {
			s.Flag = true // EnableTagOverride
		}
		if simkit.Chance(rng, 50) {
			for _, c := range agChecks {
				if agCheckService(c) == id && simkit.Chance(rng, 60) {
					s.Checks = append(s.Checks, Check{ID: c, Status: status(), Output: simkit.Pick(rng, []string{"", "out1"})})
				}
			}
		}
		return s
	}
	n := 8 + rng.IntN(40)
	for len(p.Steps) < n {
		switch simkit.Weighted(rng, []int{18, 8, 8, 5, 12, 16, 12, 10, 4, 4, 3, 4}) {
		case 11:
			// a check in sync, then several output-only updates inside one deferral window
			c, st := simkit.Pick(rng, agChecks), status()
			p.Steps = append(p.Steps, Step{Op: "ag.add-check", CheckID: c, SvcID: agCheckService(c), Val: st, Text: ""},
				Step{Op: "sync.trigger-full"}, Step{Op: "advance", Dur: "1s"})
			for i, k := 0, 1+rng.IntN(3); i < k; i++ {
				p.Steps = append(p.Steps, Step{Op: "ag.update-check", CheckID: c, Val: st, Text: fmt.Sprintf("out%d", i+1)})
			}
			p.Steps = append(p.Steps, Step{Op: "advance", Dur: simkit.Pick(rng, []string{"1s", "45s"})})
		case 0:
			p.Steps = append(p.Steps, svcStep("ag.add-service"))
		case 1:
			p.Steps = append(p.Steps, Step{Op: "ag.remove-service", SvcID: simkit.Pick(rng, agServices)})
		case 2:
			c := simkit.Pick(rng, agChecks)
			p.Steps = append(p.Steps, Step{Op: "ag.add-check", CheckID: c, SvcID: agCheckService(c), Val: status(), Text: simkit.Pick(rng, []string{"", "out1"})})
		case 3:
			p.Steps = append(p.Steps, Step{Op: "ag.remove-check", CheckID: simkit.Pick(rng, agChecks)})
		case 4:
			p.Steps = append(p.Steps, Step{Op: "ag.update-check", CheckID: simkit.Pick(rng, agChecks), Val: status(), Text: simkit.Pick(rng, []string{"", "out1", "out2"})})
		case 5: // the catalog drifts
			switch rng.IntN(5) {
			case 0, 1:
				s := svcStep("cat.register")
				if simkit.Chance(rng, 25) {
					s.SvcID, s.Svc = "foreign1", "foreign"
				}
				p.Steps = append(p.Steps, s)
			case 2:
				p.Steps = append(p.Steps, Step{Op: "cat.deregister", SvcID: simkit.Pick(rng, append([]string{"foreign1"}, agServices...))})
			case 3:
				c := simkit.Pick(rng, append([]string{"c-foreign"}, agChecks...))
				p.Steps = append(p.Steps, Step{Op: "cat.register-check", CheckID: c, SvcID: agCheckService(c), Val: status(), Text: simkit.Pick(rng, []string{"", "drift"})})
			default:
				p.Steps = append(p.Steps, Step{Op: "cat.deregister", CheckID: simkit.Pick(rng, append([]string{"c-foreign"}, agChecks...))})
			}
		case 6:
			p.Steps = append(p.Steps, Step{Op: "advance", Dur: simkit.Pick(rng, []string{"1s", "5s", "20s", "45s", "3m"})})
		case 7:
			if !faulty {
				continue
			}
			// a fault rule: the next N calls of a method about a subject fail in some way
			meth := simkit.Pick(rng, []string{"Catalog.Register", "Catalog.Register", "Catalog.Deregister", "Catalog.NodeServiceList", "Health.NodeChecks"})
			subj := simkit.Pick(rng, append(append([]string{"node"}, agServices...), agChecks...))
			kind := simkit.Pick(rng, []string{"fail", "fail", "lost-reply", "mid"})
			if strings.HasSuffix(meth, "List") || strings.HasSuffix(meth, "Checks") {
				subj = "*"
				if kind == "lost-reply" {
					kind = "fail"
				}
			} else if kind == "mid" {
				kind = "fail"
			}
			p.Steps = append(p.Steps, Step{Op: "sync.rule", Name: meth, ID: subj, Text: kind, N: int64(1 + rng.IntN(3)), M: int64(1 + rng.IntN(2))})
		case 8:
			if !faulty {
				continue
			}
			var deny []string
			for _, x := range append([]string{"node"}, "web", "api", "db") {
				if simkit.Chance(rng, 30) {
					deny = append(deny, x)
				}
			}
			p.Steps = append(p.Steps, Step{Op: "acl.deny", List: deny})
		case 9:
			p.Steps = append(p.Steps, Step{Op: "sync.trigger-full"})
		case 10:
			p.Steps = append(p.Steps, Step{Op: simkit.Pick(rng, []string{"sync.pause", "sync.resume"})})
		}
	}
	return p
}

func (w C16) Execute(t *testing.T, pl simkit.Plan, r *simkit.Run) (v *simkit.Violation) {
	if err := simkit.Bubble(t, func() { v = w.execute(pl.(*Plan), r) }); err != nil {
		return &simkit.Violation{Class: "harness-panic", Invariant: "no-escaped-panic", Detail: err.Error()}
	}
	return v
}

type agRule struct {
	method, subject, kind string
	left, mid             int
}

type agWorld struct {
	mu     sync.Mutex // held by whoever runs: the scheduler during a step, the syncer during a sync
	r      *simkit.Run
	C      *Cluster
	L      *local.State
	syncer *ae.StateSyncer
	rules  []*agRule
	deny   map[string]bool

	steps []Step
	pc    int
	cur   int

	// per sync
	inSync      string
	syncEvents  []string
	midChange   bool
	refusedNow  map[string]bool // entries whose registration/deregistration was refused since the last fetch
	drifted     map[string]bool // catalog entries changed behind the agent's back since the last fetch
	fetchFailed bool
	anyFault    bool
	syncs       int
	paused      int

	burst                  []string
	prevDrift, prevRefused map[string]bool
	// bookkeeping when the sync started
	preSvc, preChk map[string]local.VerifEntry
	// tags the catalog held, per service, when the full sync in progress fetched it (nil: no complete fetch yet)
	fetchTags, tagsAtFetch map[string][]string

	viol *simkit.Violation
}

func svcKey(id string) string { return "service:" + id }
func chkKey(id string) string { return "check:" + id }

// ---- the Delegate

type agDelegate struct{ w *agWorld }

func (d agDelegate) ResolveTokenAndDefaultMeta(string, *acl.EnterpriseMeta, *acl.AuthorizerContext) (resolver.Result, error) {
	return resolver.Result{}, acl.ErrNotFound
}

func permissionDenied(what string) error {
	return errors.New("rpc error making call: Permission denied: token with AccessorID 'sim' lacks permission '" + what + "'")
}

func (w *agWorld) rule(method string, subjects ...string) *agRule {
	for _, ru := range w.rules {
		if ru.left <= 0 || ru.method != method {
			continue
		}
		for _, s := range subjects {
			if ru.subject == s || ru.subject == "*" {
				ru.left--
				return ru
			}
		}
	}
	return nil
}

func (w *agWorld) event(format string, args ...any) {
	w.syncEvents = append(w.syncEvents, fmt.Sprintf(format, args...))
}

func (d agDelegate) RPC(_ context.Context, method string, args interface{}, reply interface{}) error {
	w := d.w
	st := w.C.L.State()
	switch method {
	case "Catalog.NodeServiceList", "Health.NodeChecks":
		if ru := w.rule(method, "*"); ru != nil {
			switch ru.kind {
			case "mid":
				w.midLocalChange(ru.mid)
			default:
				w.r.Hit("fault.fetch-failed")
				w.event("%s -> transport error", method)
				w.fetchFailed, w.anyFault = true, true
				// nothing was diffed: what drifted before this attempt is still unknown to the agent
				for k := range w.prevDrift {
					w.drifted[k] = true
				}
				for k := range w.prevRefused {
					w.refusedNow[k] = true
				}
				w.prevDrift, w.prevRefused = nil, nil
				return errors.New("rpc error making call: simulated transport failure")
			}
		}
		req := args.(*structs.NodeSpecificRequest)
		if method == "Catalog.NodeServiceList" {
			// from here on the agent works with this view of the catalog
			w.prevDrift, w.prevRefused = w.drifted, w.refusedNow
			w.drifted, w.refusedNow = map[string]bool{}, map[string]bool{}
			idx, list, err := st.NodeServiceList(nil, req.Node, &req.EnterpriseMeta, "")
			if err != nil {
				return err
			}
			out := structs.IndexedNodeServiceList{}
			w.fetchTags, w.tagsAtFetch = map[string][]string{}, nil
			if list != nil {
				out.NodeServices = *list
				for _, sv := range list.Services {
					w.fetchTags[sv.ID] = append([]string{}, sv.Tags...)
				}
			}
			out.Index = atLeastOne(idx)
			wire(&out, reply)
		} else {
			idx, checks, err := st.NodeChecks(nil, req.Node, &req.EnterpriseMeta, "")
			if err != nil {
				return err
			}
			out := structs.IndexedHealthChecks{HealthChecks: checks}
			out.Index = atLeastOne(idx)
			wire(&out, reply)
			w.tagsAtFetch = w.fetchTags // both halves of the remote state are in: the diff follows
		}
		return nil
	case "Catalog.Register":
		var req structs.RegisterRequest
		wire(args, &req)
		// the subject a fault rule is matched against: the checks if the request carries any
		// (each check travels in one request per sync), else the service, else the node
		var subjects, all []string
		checks := append(structs.HealthChecks{}, req.Checks...)
		if req.Check != nil {
			checks = append(checks, req.Check)
		}
		for _, c := range checks {
			subjects = append(subjects, string(c.CheckID))
		}
		all = append(all, subjects...)
		if req.Service != nil {
			all = append(all, req.Service.ID)
			if len(subjects) == 0 {
				subjects = []string{req.Service.ID}
			}
		}
		if len(subjects) == 0 {
			subjects, all = []string{"node"}, []string{"node"}
		}
		sort.Strings(subjects)
		sort.Strings(all)
		desc := "Register(" + strings.Join(all, ",") + ")"
		// Under EnableTagOverride the servers own the tags: what a full sync pushes for such a service carries
		// the tags it has just fetched, whatever else it corrects.
		if sv := req.Service; sv != nil && sv.EnableTagOverride && w.inSync == "full" && w.tagsAtFetch != nil && w.viol == nil {
			if had, ok := w.tagsAtFetch[sv.ID]; ok && fmt.Sprint(had) != fmt.Sprint(sv.Tags) {
				w.viol = &simkit.Violation{Property: "C16", Class: "tag-override-lost", Invariant: "full-sync-keeps-server-owned-tags", Step: w.pc, Culprit: "service",
					Detail: fmt.Sprintf("service %s has EnableTagOverride; the catalog held tags %v when this full sync fetched it, the sync registers it with tags %v", sv.ID, had, sv.Tags)}
			}
			w.r.Hit("probe.tag-override-push-judged")
		}
		// ACL: service:write for the service and its checks, node:write for node info and node checks
		if what := w.registerRefused(&req, checks); what != "" {
			w.r.Hit("fault.register-refused-by-acl")
			for _, s := range all {
				w.refusedNow[s] = true
			}
			w.event("%s -> permission denied (%s)", desc, what)
			return permissionDenied(what)
		}
		ru := w.rule(method, subjects...)
		if ru != nil && ru.kind == "fail" {
			w.r.Hit("fault.register-failed")
			w.anyFault = true
			w.event("%s -> transport error", desc)
			return errors.New("rpc error making call: simulated transport failure")
		}
		if err := consul.VerifRegisterPreApply(&req); err != nil {
			w.event("%s -> rejected: %v", desc, err)
			return err
		}
		fault := ""
		if ru != nil && ru.kind == "lost-reply" {
			fault = "lost-reply"
			w.anyFault = true
			w.r.Hit("fault.register-lost-reply")
		}
		_, err := w.C.ApplyRaw(structs.RegisterRequestType, &req, "ae:"+desc, fault)
		w.event("%s -> %v", desc, err)
		return err
	case "Catalog.Deregister":
		var req structs.DeregisterRequest
		wire(args, &req)
		subject := req.ServiceID
		if req.CheckID != "" {
			subject = string(req.CheckID)
		}
		desc := "Deregister(" + subject + ")"
		if what := w.deregisterRefused(&req); what != "" {
			w.r.Hit("fault.deregister-refused-by-acl")
			w.refusedNow[subject] = true
			w.event("%s -> permission denied (%s)", desc, what)
			return permissionDenied(what)
		}
		ru := w.rule(method, subject)
		if ru != nil && ru.kind == "fail" {
			w.r.Hit("fault.deregister-failed")
			w.anyFault = true
			w.event("%s -> transport error", desc)
			return errors.New("rpc error making call: simulated transport failure")
		}
		// as Catalog.Deregister: unknown entries are reported by name
		if req.ServiceID != "" {
			if _, svc, _ := st.NodeService(nil, req.Node, req.ServiceID, &req.EnterpriseMeta, ""); svc == nil {
				w.event("%s -> unknown service", desc)
				return fmt.Errorf("rpc error making call: Unknown service ID %q for node %q", req.ServiceID, req.Node)
			}
		} else if req.CheckID != "" {
			if _, chk, _ := st.NodeCheck(req.Node, req.CheckID, &req.EnterpriseMeta, ""); chk == nil {
				w.event("%s -> unknown check", desc)
				return fmt.Errorf("rpc error making call: Unknown check ID %q for node %q", req.CheckID, req.Node)
			}
		}
		fault := ""
		if ru != nil && ru.kind == "lost-reply" {
			fault = "lost-reply"
			w.anyFault = true
			w.r.Hit("fault.deregister-lost-reply")
		}
		_, err := w.C.ApplyRaw(structs.DeregisterRequestType, &req, "ae:"+desc, fault)
		w.event("%s -> %v", desc, err)
		return err
	}
	panic("agent made an RPC the simulated server does not serve: " + method)
}

func (w *agWorld) svcNameOf(id string, req *structs.RegisterRequest) string {
	if req != nil && req.Service != nil && req.Service.ID == id {
		return req.Service.Service
	}
	if _, svc, _ := w.C.L.State().NodeService(nil, agNode, id, nil, ""); svc != nil {
		return svc.Service
	}
	return agServiceName(id)
}

func (w *agWorld) registerRefused(req *structs.RegisterRequest, checks structs.HealthChecks) string {
	if req.Service != nil && w.deny[req.Service.Service] {
		return "service:write on " + req.Service.Service
	}
	for _, c := range checks {
		if c.ServiceID != "" {
			if n := w.svcNameOf(c.ServiceID, req); w.deny[n] {
				return "service:write on " + n
			}
		} else if w.deny["node"] {
			return "node:write on " + agNode
		}
	}
	if req.Service == nil && len(checks) == 0 && w.deny["node"] {
		return "node:write on " + agNode
	}
	return ""
}

func (w *agWorld) deregisterRefused(req *structs.DeregisterRequest) string {
	if !w.deny["node"] {
		return "" // node:write allows deregistration of anything on the node
	}
	name := ""
	if req.ServiceID != "" {
		name = w.svcNameOf(req.ServiceID, nil)
	} else if _, chk, _ := w.C.L.State().NodeCheck(req.Node, req.CheckID, &req.EnterpriseMeta, ""); chk != nil && chk.ServiceID != "" {
		name = w.svcNameOf(chk.ServiceID, nil)
	}
	if name != "" && !w.deny[name] {
		return ""
	}
	return "node:write on " + agNode
}

// midLocalChange: local registrations change after the remote state was fetched and before it is diffed.
func (w *agWorld) midLocalChange(n int) {
	for ; n > 0 && w.pc+1 < len(w.steps) && strings.HasPrefix(w.steps[w.pc+1].Op, "ag."); n-- {
		w.pc++
		w.event("local change during the fetch: %s", w.steps[w.pc].Short())
		bs, bc, _ := local.VerifDump(w.L)
		w.localOp(w.steps[w.pc])
		// flags the local operation itself set (re-registering an identical definition keeps "in sync") are not
		// flags this sync set
		as, ac, _ := local.VerifDump(w.L)
		for id, e := range as {
			if b, ok := bs[id]; !ok || b.InSync != e.InSync || b.Deleted != e.Deleted {
				w.preSvc[id] = e
			}
		}
		for id, e := range ac {
			if b, ok := bc[id]; !ok || b.InSync != e.InSync || b.Deleted != e.Deleted {
				w.preChk[id] = e
			}
		}
		w.midChange = true
		w.r.Hit("fault.local-change-during-fetch")
	}
}

// ---- sync boundaries (the syncer calls these instead of the state directly)

type agObserved struct{ w *agWorld }

func (o agObserved) SyncFull() error {
	o.w.mu.Lock() // the scheduler finishes its step first; it never sleeps holding this
	defer o.w.mu.Unlock()
	o.w.beginSync("full")
	err := o.w.L.SyncFull()
	o.w.endSync("full", err)
	return err
}

func (o agObserved) SyncChanges() error {
	o.w.mu.Lock()
	defer o.w.mu.Unlock()
	o.w.beginSync("partial")
	err := o.w.L.SyncChanges()
	o.w.endSync("partial", err)
	return err
}

// flushBurst logs the syncs since the last scheduler step.
func (w *agWorld) flushBurst() {
	if len(w.burst) == 0 {
		return
	}
	sort.Strings(w.burst)
	for i, e := range w.burst {
		if i == 0 || e != w.burst[i-1] {
			w.r.Eventf("   %s", e)
		}
	}
	w.burst = nil
}

func (w *agWorld) beginSync(kind string) {
	w.inSync, w.syncEvents, w.midChange, w.fetchFailed, w.anyFault = kind, nil, false, false, false
	w.fetchTags, w.tagsAtFetch = nil, nil
	w.preSvc, w.preChk, _ = local.VerifDump(w.L)
}

func (w *agWorld) endSync(kind string, err error) {
	w.syncs++
	// The agent walks its tables in map order, and when a pending change trigger and an expired
	// full-sync timer are both ready the syncer's select picks either: the log records what the
	// syncs between two scheduler steps did, as a sorted set.
	sort.Strings(w.syncEvents)
	if err != nil {
		w.burst = append(w.burst, "a sync failed")
	}
	w.burst = append(w.burst, w.syncEvents...)
	w.r.SigSet(fmt.Sprintf("sync:%s:%v:%d", kind, err != nil, len(w.syncEvents)))
	w.r.Hit("probe.syncs-" + kind)
	if err != nil {
		w.r.Hit("probe.syncs-failed")
	}
	w.inSync = ""
	if w.viol != nil {
		return
	}
	w.viol = w.judge(kind, err)
}

// ---- comparison of a local entry with the catalog's

func sameService(l, c *structs.NodeService) string {
	var d []string
	add := func(f string, a, b any) {
		if fmt.Sprint(a) != fmt.Sprint(b) {
			d = append(d, fmt.Sprintf("%s: local %v, catalog %v", f, a, b))
		}
	}
	add("Service", l.Service, c.Service)
	add("Port", l.Port, c.Port)
	add("Address", l.Address, c.Address)
	add("Kind", l.Kind, c.Kind)
	add("Meta", l.Meta, c.Meta)
	add("EnableTagOverride", l.EnableTagOverride, c.EnableTagOverride)
	if !l.EnableTagOverride {
		add("Tags", l.Tags, c.Tags) // under tag override the servers own the tags
	}
	return strings.Join(d, "; ")
}

func sameCheck(l, c *structs.HealthCheck) string {
	var d []string
	add := func(f string, a, b any) {
		if fmt.Sprint(a) != fmt.Sprint(b) {
			d = append(d, fmt.Sprintf("%s: local %v, catalog %v", f, a, b))
		}
	}
	add("Name", l.Name, c.Name)
	add("Status", l.Status, c.Status)
	add("Output", l.Output, c.Output)
	add("Notes", l.Notes, c.Notes)
	add("ServiceID", l.ServiceID, c.ServiceID)
	add("ServiceName", l.ServiceName, c.ServiceName)
	return strings.Join(d, "; ")
}

func (w *agWorld) catalog() (map[string]*structs.NodeService, map[string]*structs.HealthCheck) {
	st := w.C.L.State()
	svcs, chks := map[string]*structs.NodeService{}, map[string]*structs.HealthCheck{}
	_, list, err := st.NodeServiceList(nil, agNode, structs.WildcardEnterpriseMetaInDefaultPartition(), "")
	if err != nil {
		panic(err)
	}
	if list != nil {
		for _, s := range list.Services {
			svcs[s.ID] = s
		}
	}
	_, checks, err := st.NodeChecks(nil, agNode, structs.WildcardEnterpriseMetaInDefaultPartition(), "")
	if err != nil {
		panic(err)
	}
	for _, c := range checks {
		chks[string(c.CheckID)] = c
	}
	return svcs, chks
}

func (w *agWorld) judge(kind string, err error) *simkit.Violation {
	mk := func(class, inv, culprit, detail string) *simkit.Violation {
		return &simkit.Violation{Property: "C16", Class: class, Invariant: inv, Step: w.cur, Culprit: culprit,
			Detail: fmt.Sprintf("after a %s sync (error: %v):\n  %s\n  calls of this sync: %v", kind, err, detail, w.syncEvents)}
	}
	lsvc, lchk, _ := local.VerifDump(w.L)
	csvc, cchk := w.catalog()
	w.r.Hit("probe.bookkeeping-judged")
	// 1. a sync never marks in sync what the catalog does not hold. (A partial sync only answers
	// for the flags it set itself: re-registering an identical definition locally marks the new
	// entry in sync whether or not the old one ever was, which the next full sync corrects.)
	setHere := func(pre map[string]local.VerifEntry, id string) bool {
		p, ok := pre[id]
		return (kind == "full" && !w.fetchFailed) || !ok || !p.InSync || p.Deleted
	}
	for _, id := range simkit.SortedKeys(lsvc) {
		e := lsvc[id]
		if !e.InSync || e.Deleted || w.refusedNow[id] || w.drifted[svcKey(id)] || !setHere(w.preSvc, id) {
			continue
		}
		c := csvc[id]
		if c == nil {
			return mk("insync-lie", "in-sync-entry-is-in-the-catalog", "service", fmt.Sprintf("service %s is marked in sync but the catalog does not hold it", id))
		}
		if d := sameService(e.Service, c); d != "" {
			return mk("insync-lie", "in-sync-entry-is-in-the-catalog", "service", fmt.Sprintf("service %s is marked in sync but differs from the catalog: %s", id, d))
		}
	}
	for _, id := range simkit.SortedKeys(lchk) {
		e := lchk[id]
		if !e.InSync || e.Deleted || w.refusedNow[id] || w.drifted[chkKey(id)] || !setHere(w.preChk, id) {
			continue
		}
		if sid := e.Check.ServiceID; sid != "" && (w.refusedNow[sid] || w.drifted[svcKey(sid)]) {
			continue
		}
		c := cchk[id]
		if c == nil {
			return mk("insync-lie", "in-sync-entry-is-in-the-catalog", "check", fmt.Sprintf("check %s is marked in sync but the catalog does not hold it", id))
		}
		lc := e.Check
		if e.Deferred {
			// an output-only update waits for its delayed write-back: until then the output is not content
			cp := *lc
			cp.Output = c.Output
			lc = &cp
		}
		if d := sameCheck(lc, c); d != "" {
			return mk("insync-lie", "in-sync-entry-is-in-the-catalog", "check", fmt.Sprintf("check %s is marked in sync but differs from the catalog: %s", id, d))
		}
	}
	// 2. whatever the catalog holds for this node and the agent does not register is scheduled for deletion
	for _, id := range simkit.SortedKeys(csvc) {
		if e, ok := lsvc[id]; ok || w.drifted[svcKey(id)] || id == "consul" {
			_ = e
			continue
		}
		return mk("delete-forgotten", "unregistered-catalog-entry-is-scheduled-for-deletion", "service",
			fmt.Sprintf("the catalog holds service %s, the agent neither registers it nor remembers to deregister it", id))
	}
	for _, id := range simkit.SortedKeys(cchk) {
		if _, ok := lchk[id]; ok || w.drifted[chkKey(id)] || id == "serfHealth" {
			continue
		}
		if sid := cchk[id].ServiceID; sid != "" {
			if e, ok := lsvc[sid]; (ok && e.Deleted) || w.drifted[svcKey(sid)] {
				continue // goes away with its service
			}
		}
		return mk("delete-forgotten", "unregistered-catalog-entry-is-scheduled-for-deletion", "check",
			fmt.Sprintf("the catalog holds check %s, the agent neither registers it nor remembers to deregister it", id))
	}
	// 3. a successful, undisturbed full sync makes the catalog equal to the local state
	if kind == "full" && err == nil && !w.midChange {
		w.r.Hit("probe.successful-full-sync-judged")
		if d := w.converged(lsvc, lchk, csvc, cchk, true); d != "" {
			return mk("no-convergence", "catalog-equals-local-after-successful-full-sync", "full-sync", d)
		}
	}
	return nil
}

// converged: "" if the catalog's services and checks of the node equal the local registrations.
func (w *agWorld) converged(lsvc, lchk map[string]local.VerifEntry, csvc map[string]*structs.NodeService, cchk map[string]*structs.HealthCheck, tolerateRefused bool) string {
	skip := func(id, key string) bool { return w.drifted[key] || (tolerateRefused && w.refusedNow[id]) }
	for _, id := range simkit.SortedKeys(lsvc) {
		e := lsvc[id]
		if skip(id, svcKey(id)) {
			continue
		}
		c := csvc[id]
		switch {
		case e.Deleted && c != nil:
			return fmt.Sprintf("service %s was deregistered locally but is still in the catalog", id)
		case e.Deleted:
		case c == nil:
			return fmt.Sprintf("service %s is registered locally but missing in the catalog", id)
		default:
			if d := sameService(e.Service, c); d != "" {
				return fmt.Sprintf("service %s differs: %s", id, d)
			}
		}
	}
	for _, id := range simkit.SortedKeys(csvc) {
		if _, ok := lsvc[id]; !ok && id != "consul" && !skip(id, svcKey(id)) {
			return fmt.Sprintf("the catalog holds service %s which the agent does not register", id)
		}
	}
	for _, id := range simkit.SortedKeys(lchk) {
		e := lchk[id]
		if skip(id, chkKey(id)) {
			continue
		}
		if e.Check != nil && e.Check.ServiceID != "" && skip(e.Check.ServiceID, svcKey(e.Check.ServiceID)) {
			continue
		}
		c := cchk[id]
		switch {
		case e.Deleted && c != nil:
			return fmt.Sprintf("check %s was removed locally but is still in the catalog", id)
		case e.Deleted:
		case c == nil:
			return fmt.Sprintf("check %s is registered locally but missing in the catalog", id)
		default:
			if d := sameCheck(e.Check, c); d != "" {
				return fmt.Sprintf("check %s differs: %s", id, d)
			}
		}
	}
	for _, id := range simkit.SortedKeys(cchk) {
		if _, ok := lchk[id]; ok || id == "serfHealth" || skip(id, chkKey(id)) {
			continue
		}
		if sid := cchk[id].ServiceID; sid != "" && skip(sid, svcKey(sid)) {
			continue
		}
		return fmt.Sprintf("the catalog holds check %s which the agent does not register", id)
	}
	return ""
}

// ---- agent-side operations, as agent.go performs them

func (w *agWorld) localOp(s Step) {
	sid := func(id string) structs.ServiceID { return structs.NewServiceID(id, nil) }
	cid := func(id string) structs.CheckID { return structs.NewCheckID(types.CheckID(id), nil) }
	mkCheck := func(id, svc, status, output string) *structs.HealthCheck {
		hc := &structs.HealthCheck{Node: agNode, CheckID: types.CheckID(id), Name: "check " + id, Status: status, Output: output, ServiceID: svc}
		if svc != "" {
			if ns := w.L.Service(sid(svc)); ns != nil {
				hc.ServiceName, hc.ServiceTags = ns.Service, ns.Tags
			}
		}
		return hc
	}
	var err error
	switch s.Op {
	case "ag.add-service":
		ns := &structs.NodeService{ID: s.SvcID, Service: s.Svc, Port: s.Port, Tags: s.Tags, EnableTagOverride: s.Flag,
			Weights: &structs.Weights{Passing: 1, Warning: 1}}
		var checks []*structs.HealthCheck
		for _, c := range s.Checks {
			checks = append(checks, &structs.HealthCheck{Node: agNode, CheckID: types.CheckID(c.ID), Name: "check " + c.ID, Status: c.Status, Output: c.Output,
				ServiceID: s.SvcID, ServiceName: s.Svc, ServiceTags: s.Tags})
		}
		// agent.addServiceInternal: checks of the service that are no longer defined are removed with the update
		if prev := w.L.Service(sid(s.SvcID)); prev != nil {
			keep := map[string]bool{}
			for _, c := range s.Checks {
				keep[c.ID] = true
			}
			for id := range w.L.ChecksForService(sid(s.SvcID), false) {
				if !keep[string(id.ID)] {
					w.L.RemoveCheck(id)
				}
			}
		}
		err = w.L.AddServiceWithChecks(ns, checks, "", false)
	case "ag.remove-service":
		var ids []structs.CheckID
		for id := range w.L.ChecksForService(sid(s.SvcID), false) {
			ids = append(ids, id)
		}
		sort.Slice(ids, func(i, j int) bool { return ids[i].ID < ids[j].ID })
		err = w.L.RemoveServiceWithChecks(sid(s.SvcID), ids)
	case "ag.add-check":
		if s.SvcID != "" && w.L.Service(sid(s.SvcID)) == nil {
			// agent.addCheckLocked refuses a check for a service that is not registered
			err = errors.New("ServiceID does not exist")
			break
		}
		err = w.L.AddCheck(mkCheck(s.CheckID, s.SvcID, s.Val, s.Text), "", false)
	case "ag.remove-check":
		err = w.L.RemoveCheck(cid(s.CheckID))
	case "ag.update-check":
		w.L.UpdateCheck(cid(s.CheckID), s.Val, s.Text)
	}
	if err != nil {
		w.r.Hit("probe.local-op-rejected")
	} else {
		w.r.Hit("probe.local-op")
	}
}

func (w *agWorld) settle() {
	for i := 0; i < 50; i++ {
		synctest.Wait()
		if !w.C.HasPending() {
			return
		}
		panic("catalog proposal parked outside the scheduler")
	}
}

func (C16) execute(p *Plan, r *simkit.Run) *simkit.Violation {
	w := &agWorld{r: r, steps: p.Steps, deny: map[string]bool{}, drifted: map[string]bool{}, refusedNow: map[string]bool{}}
	w.C = NewCluster(r, parseDur(p.Cfg.GCTTL, 15*time.Minute), parseDur(p.Cfg.GCGran, 30*time.Second))
	defer w.C.Close()
	logger := hclog.New(&hclog.LoggerOptions{Level: hclog.Off})
	lcfg := local.Config{AdvertiseAddr: "10.1.0.1", Datacenter: "dc1", NodeID: agNodeID, NodeName: agNode,
		TaggedAddresses: map[string]string{"lan": "10.1.0.1"}}
	if p.Cfg.Extra["defer"] == "on" {
		lcfg.CheckUpdateInterval = time.Nanosecond
	}
	w.L = local.NewState(lcfg, logger, new(token.Store))
	w.L.Delegate = agDelegate{w}
	interval := parseDur(p.Cfg.Extra["interval"], time.Minute)
	shutdown := make(chan struct{})
	w.syncer = ae.NewStateSyncer(agObserved{w}, interval, shutdown, logger)
	w.syncer.ClusterSize = func() int { return 3 }
	w.L.TriggerSyncChanges = w.syncer.SyncChanges.Trigger
	var seed uint64
	fmt.Sscan(p.Cfg.Extra["stagger_seed"], &seed)
	srng := simkit.NewRNG(seed + 1)
	ae.VerifSetStagger(func(d time.Duration) time.Duration {
		if d <= 0 {
			return 0
		}
		return time.Duration(srng.Int64N(int64(d)))
	})
	done := make(chan struct{})
	go func() { defer close(done); w.syncer.Run() }()
	defer func() {
		close(shutdown)
		synctest.Wait()
		<-done
	}()
	w.settle()

	markDrift := func(keys ...string) {
		for _, k := range keys {
			w.drifted[k] = true
		}
	}
	for w.pc = 0; w.pc < len(w.steps) && w.viol == nil; w.pc++ {
		i := w.pc
		w.cur = i
		s := w.steps[i]
		r.Steps++
		if s.Op == "advance" {
			d := parseDur(s.Dur, time.Second)
			w.mu.Lock()
			w.flushBurst()
			r.Eventf("advance %s", d)
			w.mu.Unlock()
			time.Sleep(d)
			w.mu.Lock()
			r.AdvanceSim(d)
			w.mu.Unlock()
			w.settle()
			continue
		}
		w.mu.Lock()
		w.flushBurst()
		r.Eventf("step %s", s.Short())
		r.Sig(s.Op)
		switch {
		case strings.HasPrefix(s.Op, "ag."):
			w.localOp(s)
		case s.Op == "cat.register":
			t := Step{Op: "register", Node: agNode, NodeID: string(agNodeID), Addr: "10.1.0.1", Svc: s.Svc, SvcID: s.SvcID, Port: s.Port, Tags: s.Tags, Checks: s.Checks, SkipNode: true}
			keys := []string{svcKey(s.SvcID)}
			t.Checks = nil
			for _, c := range s.Checks {
				keys = append(keys, chkKey(c.ID))
				c.SvcID = s.SvcID
				t.Checks = append(t.Checks, c)
			}
			markDrift(keys...)
			w.C.DoNoDrain(t)
		case s.Op == "cat.register-check":
			t := Step{Op: "register", Node: agNode, NodeID: string(agNodeID), Addr: "10.1.0.1", SkipNode: true,
				Checks: []Check{{ID: s.CheckID, Status: s.Val, Output: s.Text, SvcID: s.SvcID}}}
			markDrift(chkKey(s.CheckID))
			w.C.DoNoDrain(t)
		case s.Op == "cat.deregister":
			t := Step{Op: "deregister", Node: agNode, SvcID: s.SvcID, CheckID: s.CheckID}
			if s.SvcID != "" {
				markDrift(svcKey(s.SvcID))
				_, cchk := w.catalog()
				for id, c := range cchk {
					if c.ServiceID == s.SvcID {
						markDrift(chkKey(id))
					}
				}
			} else {
				markDrift(chkKey(s.CheckID))
			}
			w.C.DoNoDrain(t)
		case s.Op == "sync.rule":
			w.rules = append(w.rules, &agRule{method: s.Name, subject: s.ID, kind: s.Text, left: int(s.N), mid: int(s.M)})
		case s.Op == "acl.deny":
			w.deny = map[string]bool{}
			for _, x := range s.List {
				w.deny[x] = true
			}
		case s.Op == "sync.trigger-full":
			w.syncer.SyncFull.Trigger()
		case s.Op == "sync.pause":
			w.syncer.Pause()
			w.paused++
		case s.Op == "sync.resume":
			if w.paused > 0 {
				w.paused--
				w.syncer.Resume()
			}
		}
		w.mu.Unlock()
		w.settle()
		if w.C.Fatal != nil {
			return &simkit.Violation{Property: "C16", Class: "panic", Invariant: "apply-does-not-panic", Step: i, Culprit: s.Op, Detail: w.C.Fatal.Error()}
		}
	}
	if w.viol != nil {
		return w.viol
	}
	// bounded liveness: faults and refusals stop; within interval + stagger + retry interval
	// (scaled stagger <= the interval itself) everything has converged
	w.mu.Lock()
	w.flushBurst()
	w.cur = len(w.steps)
	w.rules, w.deny = nil, map[string]bool{}
	for w.paused > 0 {
		w.paused--
		w.syncer.Resume()
	}
	w.mu.Unlock()
	w.settle()
	budget := 2*interval + 2*15*time.Second + 5*time.Second
	time.Sleep(budget)
	r.AdvanceSim(budget)
	w.settle()
	w.flushBurst()
	if w.viol != nil {
		return w.viol
	}
	lsvc, lchk, _ := local.VerifDump(w.L)
	csvc, cchk := w.catalog()
	w.drifted, w.refusedNow = map[string]bool{}, map[string]bool{}
	if d := w.converged(lsvc, lchk, csvc, cchk, false); d != "" {
		return &simkit.Violation{Property: "C16", Class: "no-convergence", Invariant: "converges-once-faults-stop", Step: len(w.steps), Culprit: "liveness",
			Detail: fmt.Sprintf("faults and refusals stopped, %s of simulated time passed (interval %s), and still: %s", budget, interval, d)}
	}
	r.Hit("probe.final-convergence-checked")
	r.Nontrivial = w.syncs >= 2 && len(w.C.Log) >= 2
	return nil
}
