//go:build verif

package fsmworld

import (
	"encoding/json"
	"fmt"
	"math/rand/v2"
	"sort"
	"strings"
	"testing"
	"time"

	"github.com/hashicorp/consul/agent/consul/state"
	"github.com/hashicorp/consul/agent/structs"
	"github.com/hashicorp/consul/internal/verifsim/simkit"
)

// C13: intention decisions follow precedence, independent of write order.
//
// A plan is a multiset of intention writes grouped in UNITS (all writes that
// touch the same source/destination pair, or the same destination entry); the
// order inside a unit is data, the interleaving of units is the schedule: the
// same writes are committed in several PRNG-chosen interleavings (clients racing
// to the log), each on a fresh replicated state machine. For every
// (source, destination) of the universe and both default policies the decision
// obtained through the check path (match by source + decide) and through the
// destination path must equal a reference precedence evaluation, and decisions,
// match lists and the full listing must be identical across interleavings.
type C13 struct{}

func (C13) Decode(raw []byte) (simkit.Plan, error) { return DecodePlan(raw) }

var c13Names = []string{"*", "web", "api", "db"}

func (C13) Generate(rng *rand.Rand, tier string, runIdx uint64) simkit.Plan {
	p := &Plan{Cfg: Cfg{GCTTL: "15m", GCGran: "30s", Extra: map[string]string{}}}
	flavour := simkit.Pick(rng, []string{"mutation", "mutation", "entry", "legacy"})
	p.Cfg.Extra["flavour"] = flavour
	nperm := 2 + rng.IntN(3)
	for i := 0; i < nperm; i++ {
		p.Cfg.Perm = append(p.Cfg.Perm, int(rng.Uint32()>>1))
	}
	n := 2 + rng.IntN(10)
	act := func() string { return simkit.Pick(rng, []string{"allow", "deny"}) }
	switch flavour {
	case "mutation":
		for i := 0; i < n; i++ {
			src, dst := simkit.Pick(rng, c13Names), simkit.Pick(rng, c13Names)
			s := Step{Op: "ixn.mut.upsert", Name: src, Svc: dst, Text: act(), ID: ""}
			if simkit.Chance(rng, 20) {
				s.Op = "ixn.mut.delete"
			} else if simkit.Chance(rng, 15) {
				// an upsert the store refuses (no action): it must leave no trace
				s.Text = ""
			}
			p.Steps = append(p.Steps, s)
		}
	case "legacy":
		ids := map[string]int{}
		for i := 0; i < n; i++ {
			src, dst := simkit.Pick(rng, c13Names), simkit.Pick(rng, c13Names)
			k := src + ">" + dst
			if ids[k] == 0 {
				ids[k] = len(ids) + 1
			}
			id := ids[k]
			if simkit.Chance(rng, 30) {
				// update by id that moves the intention to another pair (changes its specificity)
				id = 1 + rng.IntN(len(ids))
			}
			s := Step{Op: "ixn.legacy.set", ID: IxnUUID(id), Name: src, Svc: dst, Text: act()}
			if simkit.Chance(rng, 15) {
				s.Op = "ixn.legacy.delete"
			}
			p.Steps = append(p.Steps, s)
		}
	default:
		for i := 0; i < n; i++ {
			dst := simkit.Pick(rng, c13Names)
			k := 1 + rng.IntN(3)
			var srcs []M
			seen := map[string]bool{}
			for j := 0; j < k; j++ {
				src := simkit.Pick(rng, c13Names)
				peer := ""
				if simkit.Chance(rng, 15) && src != "*" {
					peer = "peerA"
				}
				if seen[src+"@"+peer] {
					continue
				}
				seen[src+"@"+peer] = true
				m := M{"Name": src}
				if peer != "" {
					m["Peer"] = peer
				}
				if simkit.Chance(rng, 20) && dst != "*" {
					m["Permissions"] = []M{{"Action": act(), "HTTP": M{"PathPrefix": "/x"}}}
				} else {
					m["Action"] = act()
				}
				srcs = append(srcs, m)
			}
			op := "ce.upsert"
			if simkit.Chance(rng, 15) {
				op = "ce.delete"
			}
			p.Steps = append(p.Steps, Step{Op: op, Text: mustJSON(M{"Kind": "service-intentions", "Name": dst, "Sources": srcs})})
		}
		// L7 permissions require an http protocol on the destination
		p.Steps = append([]Step{{Op: "ce.upsert", Text: mustJSON(M{"Kind": "proxy-defaults", "Name": "global", "Config": M{"protocol": "http"}})}}, p.Steps...)
	}
	return p
}

// c13Units labels every step with its unit: steps of one unit keep their order in every
// interleaving. Legacy intentions are addressed by id and by pair, so a unit is a connected
// component of steps sharing either.
func c13Units(steps []Step) []string {
	parent := map[string]string{}
	var find func(string) string
	find = func(x string) string {
		if parent[x] == "" || parent[x] == x {
			parent[x] = x
			return x
		}
		parent[x] = find(parent[x])
		return parent[x]
	}
	for _, s := range steps {
		if strings.HasPrefix(s.Op, "ixn.legacy") {
			parent[find("id:"+s.ID)] = find("pair:" + s.Name + ">" + s.Svc)
		}
	}
	out := make([]string, len(steps))
	for i, s := range steps {
		if strings.HasPrefix(s.Op, "ixn.legacy") {
			out[i] = find("id:" + s.ID)
		} else {
			out[i] = c13Unit(s)
		}
	}
	return out
}

func c13Unit(s Step) string {
	switch {
	case strings.HasPrefix(s.Op, "ixn."):
		return s.Name + ">" + s.Svc
	case strings.HasPrefix(s.Op, "ce."):
		var m M
		json.Unmarshal([]byte(s.Text), &m)
		if m["Kind"] == "proxy-defaults" {
			return "!first"
		}
		return fmt.Sprint("dst:", m["Name"])
	}
	return "!first"
}

// interleave returns an order of step indexes: units shuffled against each other, order inside a unit kept.
func interleave(steps []Step, seed int) []int {
	n := len(steps)
	if seed == 0 {
		out := make([]int, n)
		for i := range out {
			out[i] = i
		}
		return out
	}
	units := c13Units(steps)
	rng := simkit.NewRNG(uint64(seed))
	perm := rng.Perm(n)
	// positions handed to each unit, then refilled in original order
	byUnit := map[string][]int{}
	for pos, idx := range perm {
		u := units[idx]
		byUnit[u] = append(byUnit[u], pos)
	}
	out := make([]int, n)
	next := map[string]int{}
	for idx := 0; idx < n; idx++ {
		u := units[idx]
		ps := byUnit[u]
		sorted := append([]int{}, ps...)
		sort.Ints(sorted)
		out[sorted[next[u]]] = idx
		next[u]++
	}
	// "!first" steps lead
	sort.SliceStable(out, func(i, j int) bool {
		return units[out[i]] == "!first" && units[out[j]] != "!first"
	})
	return out
}

type ixnModel map[string]string // "src@peer>dst" -> "allow" | "deny" | "l7"

func (m ixnModel) decide(src, dst string, defaultAllow bool) (allowed bool, matched string) {
	for _, k := range []string{src + "@>" + dst, "*@>" + dst, src + "@>*", "*@>*"} {
		if a, ok := m[k]; ok {
			return a == "allow", k
		}
	}
	return defaultAllow, ""
}

func (w C13) Execute(t *testing.T, pl simkit.Plan, r *simkit.Run) (v *simkit.Violation) {
	p := pl.(*Plan)
	var first *c13Obs
	seeds := append([]int{0}, p.Cfg.Perm...)
	for pi, seed := range seeds {
		var obs *c13Obs
		if err := simkit.Bubble(t, func() { obs, v = w.runOrder(p, seed, r) }); err != nil {
			return &simkit.Violation{Class: "harness-panic", Invariant: "no-escaped-panic", Detail: err.Error()}
		}
		if v != nil {
			return v
		}
		if obs == nil {
			return nil
		}
		if first == nil {
			first = obs
			continue
		}
		r.Hit("probe.interleaving-compared")
		for _, k := range simkit.SortedKeys(first.facts) {
			if first.facts[k] != obs.facts[k] {
				return &simkit.Violation{Property: "C13", Class: "order-dependence", Invariant: "same-writes-same-answers", Step: pi, Culprit: strings.SplitN(k, " ", 2)[0],
					Detail: fmt.Sprintf("the same intention writes committed in another interleaving (seed %d: %v) give a different %s\n  identity order: %s\n  this order:     %s",
						seed, obs.order, k, simkit.Trunc(first.facts[k], 900), simkit.Trunc(obs.facts[k], 900))}
			}
		}
	}
	r.Nontrivial = len(p.Steps) >= 2
	return nil
}

type c13Obs struct {
	order []int
	facts map[string]string
}

func (C13) runOrder(p *Plan, seed int, r *simkit.Run) (*c13Obs, *simkit.Violation) {
	c := NewCluster(r, 15*time.Minute, 30*time.Second)
	defer c.Close()
	flavour := p.Cfg.Extra["flavour"]
	if flavour != "legacy" {
		c.Do(Step{Op: "sysmeta.set", Key: "intention-format", Val: "config-entry"})
	}
	order := interleave(p.Steps, seed)
	model := ixnModel{}
	byID := map[string]string{}
	mk := func(class, inv, culprit, detail string) *simkit.Violation {
		return &simkit.Violation{Property: "C13", Class: class, Invariant: inv, Step: len(order), Culprit: culprit, Detail: detail}
	}
	for _, idx := range order {
		s := p.Steps[idx]
		r.Steps++
		out := c.Do(s)
		if c.Fatal != nil {
			return nil, mk("panic", "apply-does-not-panic", s.Op, c.Fatal.Error())
		}
		ok := out.Err == nil && !out.Rejected && len(out.Appended) > 0
		if _, isErr := out.Resp.(error); isErr {
			ok = false
		}
		if !ok {
			continue
		}
		switch s.Op {
		case "ixn.mut.upsert":
			model[s.Name+"@>"+s.Svc] = s.Text
		case "ixn.legacy.set":
			if old, ok := byID[s.ID]; ok {
				delete(model, old)
			}
			byID[s.ID] = s.Name + "@>" + s.Svc
			model[s.Name+"@>"+s.Svc] = s.Text
		case "ixn.mut.delete":
			delete(model, s.Name+"@>"+s.Svc)
		case "ixn.legacy.delete":
			if old, ok := byID[s.ID]; ok {
				delete(model, old)
				delete(byID, s.ID)
			}
		case "ce.upsert", "ce.delete":
			var m struct {
				Kind, Name string
				Sources    []struct {
					Name, Peer, Action string
					Permissions        []any
				}
			}
			json.Unmarshal([]byte(s.Text), &m)
			if m.Kind != "service-intentions" {
				continue
			}
			for k := range model {
				if strings.HasSuffix(k, ">"+m.Name) {
					delete(model, k)
				}
			}
			if s.Op == "ce.upsert" {
				for _, src := range m.Sources {
					a := src.Action
					if len(src.Permissions) > 0 {
						a = "l7"
					}
					model[src.Name+"@"+src.Peer+">"+m.Name] = a
				}
			}
		}
	}
	r.Sig(flavour + ":" + modelString(model))
	st := c.L.State()
	obs := &c13Obs{order: order, facts: map[string]string{}}
	services := []string{"web", "api", "db", "other"}
	for _, src := range services {
		// check path: match by source, decide on destination
		_, bySrc, err := st.IntentionMatchOne(nil, structs.IntentionMatchEntry{Namespace: "default", Partition: "default", Name: src}, structs.IntentionMatchSource, structs.IntentionTargetService)
		if err != nil {
			return nil, mk("precedence-mismatch", "match-succeeds", "match", err.Error())
		}
		obs.facts["match-by-source "+src] = simkit.Canon(bySrc, "CreateIndex", "ModifyIndex", "CreatedAt", "UpdatedAt", "Hash", "LegacyCreateTime", "LegacyUpdateTime")
		if v := checkPrecedenceOrder(bySrc, "source "+src); v != "" {
			return nil, mk("precedence-mismatch", "match-list-sorted-by-precedence", "match", v)
		}
		for _, dst := range services {
			for _, def := range []bool{true, false} {
				d1, err := st.IntentionDecision(state.IntentionDecisionOpts{Target: dst, Namespace: "default", Partition: "default", Intentions: bySrc,
					MatchType: structs.IntentionMatchDestination, DefaultAllow: def})
				if err != nil {
					return nil, mk("precedence-mismatch", "decision-succeeds", "decision", err.Error())
				}
				_, byDst, err := st.IntentionMatchOne(nil, structs.IntentionMatchEntry{Namespace: "default", Partition: "default", Name: dst}, structs.IntentionMatchDestination, structs.IntentionTargetService)
				if err != nil {
					return nil, mk("precedence-mismatch", "match-succeeds", "match", err.Error())
				}
				d2, err := st.IntentionDecision(state.IntentionDecisionOpts{Target: src, Namespace: "default", Partition: "default", Intentions: byDst,
					MatchType: structs.IntentionMatchSource, DefaultAllow: def})
				if err != nil {
					return nil, mk("precedence-mismatch", "decision-succeeds", "decision", err.Error())
				}
				want, via := model.decide(src, dst, def)
				if a, ok := model[via]; ok && a == "l7" {
					want = false // check path: L7 permissions cannot be evaluated, AllowPermissions=false
				}
				key := fmt.Sprintf("decision %s->%s default=%v", src, dst, def)
				obs.facts[key] = fmt.Sprint(d1.Allowed)
				r.Hit("probe.decision-checked")
				if d1.Allowed != want {
					return nil, mk("precedence-mismatch", "decision-equals-reference-precedence", "decision",
						fmt.Sprintf("%s: store (match by source) says allowed=%v, reference precedence says %v (deciding intention %q); intentions: %v", key, d1.Allowed, want, via, modelString(model)))
				}
				if d2.Allowed != d1.Allowed {
					return nil, mk("precedence-mismatch", "check-and-match-paths-agree", "decision",
						fmt.Sprintf("%s: match-by-source path says %v, match-by-destination path says %v; intentions: %v", key, d1.Allowed, d2.Allowed, modelString(model)))
				}
			}
		}
		_, byDst, _ := st.IntentionMatchOne(nil, structs.IntentionMatchEntry{Namespace: "default", Partition: "default", Name: src}, structs.IntentionMatchDestination, structs.IntentionTargetService)
		obs.facts["match-by-destination "+src] = simkit.Canon(byDst, "CreateIndex", "ModifyIndex", "CreatedAt", "UpdatedAt", "Hash", "LegacyCreateTime", "LegacyUpdateTime")
		if v := checkPrecedenceOrder(byDst, "destination "+src); v != "" {
			return nil, mk("precedence-mismatch", "match-list-sorted-by-precedence", "match", v)
		}
	}
	_, all, _, err := st.Intentions(nil, structs.WildcardEnterpriseMetaInDefaultPartition())
	if err != nil {
		return nil, mk("precedence-mismatch", "list-succeeds", "list", err.Error())
	}
	obs.facts["list all"] = simkit.Canon(all, "CreateIndex", "ModifyIndex", "CreatedAt", "UpdatedAt", "Hash", "LegacyCreateTime", "LegacyUpdateTime")
	if v := checkPrecedenceOrder(all, "list"); v != "" {
		return nil, mk("precedence-mismatch", "list-sorted-by-precedence", "list", v)
	}
	// the listing holds exactly the model's intentions
	got := map[string]bool{}
	for _, ixn := range all {
		got[ixn.SourceName+"@"+ixn.SourcePeer+">"+ixn.DestinationName] = true
	}
	if len(got) != len(model) {
		return nil, mk("precedence-mismatch", "list-equals-written-intentions", "list", fmt.Sprintf("listing has %v, written intentions are %v", simkit.SortedKeys(got), modelString(model)))
	}
	return obs, nil
}

func modelString(m ixnModel) string {
	var parts []string
	for _, k := range simkit.SortedKeys(m) {
		parts = append(parts, k+"="+m[k])
	}
	return strings.Join(parts, " ")
}

// checkPrecedenceOrder: results are returned most specific first.
func checkPrecedenceOrder[T ~[]*structs.Intention](ixns T, what string) string {
	prec := func(i *structs.Intention) int {
		p := 0
		if i.DestinationName != "*" {
			p += 2
		}
		if i.SourceName != "*" {
			p++
		}
		return p
	}
	for i := 1; i < len(ixns); i++ {
		if prec(ixns[i-1]) < prec(ixns[i]) {
			return fmt.Sprintf("%s: %s->%s is returned before the more specific %s->%s", what, ixns[i-1].SourceName, ixns[i-1].DestinationName, ixns[i].SourceName, ixns[i].DestinationName)
		}
	}
	return ""
}
