//go:build verif

// Package fsmworld (W1) runs the real fsm.FSM + state.Store behind a simulated
// single-copy replicated log, with crash/restart, snapshot persist/restore
// through faulty sinks/readers and a fake clock per replica.
package fsmworld

import (
	"bytes"
	"errors"
	"fmt"
	"io"
	"sort"
	"strings"
	"time"

	"github.com/hashicorp/go-hclog"
	"github.com/hashicorp/raft"

	"github.com/hashicorp/consul/agent/consul/fsm"
	"github.com/hashicorp/consul/agent/consul/state"
	"github.com/hashicorp/consul/agent/consul/stream"
	"github.com/hashicorp/consul/agent/netutil"
	"github.com/hashicorp/consul/agent/structs"
	raftstorage "github.com/hashicorp/consul/internal/storage/raft"
	"github.com/hashicorp/consul/internal/verifsim/simkit"
)

func init() {
	// The state store asks netutil.IsDualStack inside apply; without this seam it
	// makes an HTTP call to a local agent. Pinned equal for all replicas.
	netutil.GetAgentBindAddrFunc = netutil.GetMockGetAgentBindAddrFunc("0.0.0.0")
}

// setDualStack pins the process-global "is the agent dual-stack" answer that the
// state store consults inside apply (identical configuration on every replica).
func setDualStack(on bool) {
	if on {
		netutil.GetAgentBindAddrFunc = netutil.GetMockGetAgentBindAddrFunc("::")
	} else {
		netutil.GetAgentBindAddrFunc = netutil.GetMockGetAgentBindAddrFunc("0.0.0.0")
	}
}

var nullLogger = hclog.NewNullLogger()

// recPublisher records event batches handed over by txn.Commit (state.EventPublisher).
type recPublisher struct {
	batches [][]stream.Event
}

func (p *recPublisher) Publish(ev []stream.Event) { p.batches = append(p.batches, ev) }
func (p *recPublisher) RegisterHandler(stream.Topic, stream.SnapshotFunc, bool) error {
	return nil
}
func (p *recPublisher) Subscribe(*stream.SubscribeRequest) (*stream.Subscription, error) {
	return nil, errors.New("recPublisher: no subscriptions")
}

// Entry is one committed log entry.
type Entry struct {
	Index uint64
	Data  []byte
	Desc  string
}

// Replica is one consul server's replicated state machine.
type Replica struct {
	Name    string
	GC      *state.TombstoneGC
	FSM     *fsm.FSM
	Pub     *recPublisher
	Applied uint64 // last applied index
	Stores  int    // number of state stores created (1 + restores)
}

type nullHandle struct{}

func (nullHandle) Apply([]byte) (any, error) { return nil, errors.New("no raft") }
func (nullHandle) IsLeader() bool            { return true }

func NewReplica(name string, gcTTL, gcGran time.Duration) *Replica {
	return NewReplicaPub(name, gcTTL, gcGran, nil)
}

// NewReplicaPub: with a real stream.EventPublisher the FSM registers its snapshot handlers on it and
// the store hands committed events to it (C11); with nil, events are only recorded.
func NewReplicaPub(name string, gcTTL, gcGran time.Duration, pub *stream.EventPublisher) *Replica {
	gc, err := state.NewTombstoneGC(gcTTL, gcGran)
	if err != nil {
		panic(err)
	}
	r := &Replica{Name: name, GC: gc, Pub: &recPublisher{}}
	if pub != nil {
		backend, err := raftstorage.NewBackend(nil, nullLogger)
		if err != nil {
			panic(err)
		}
		r.FSM = fsm.NewFromDeps(fsm.Deps{
			Logger: nullLogger,
			NewStateStore: func() *state.Store {
				r.Stores++
				return state.NewStateStoreWithEventPublisher(gc, pub)
			},
			Publisher:      pub,
			StorageBackend: backend,
		})
		return r
	}
	backend, err := raftstorage.NewBackend(nil, nullLogger)
	if err != nil {
		panic(err)
	}
	r.FSM = fsm.NewFromDeps(fsm.Deps{
		Logger: nullLogger,
		NewStateStore: func() *state.Store {
			r.Stores++
			return state.NewStateStoreWithEventPublisher(gc, r.Pub)
		},
		StorageBackend: backend,
	})
	return r
}

func (r *Replica) State() *state.Store { return r.FSM.State() }

// Apply feeds one committed entry through the chunking shim exactly as raft
// does. A panic in the handler is returned as panicErr.
func (r *Replica) Apply(e Entry) (resp any, panicErr error) {
	defer func() {
		if p := recover(); p != nil {
			panicErr = fmt.Errorf("panic in FSM.Apply(%s): %v", e.Desc, p)
		}
	}()
	resp = r.FSM.ChunkingFSM().Apply(&raft.Log{Index: e.Index, Term: 1, Type: raft.LogCommand, Data: e.Data})
	r.Applied = e.Index
	return resp, nil
}

// ---------------------------------------------------------------------------
// snapshot media

// Sink is a raft.SnapshotSink over memory with injectable write faults.
type Sink struct {
	buf       bytes.Buffer
	FailAt    int  // fail the Write that would cross this many bytes (<0: never)
	Short     bool // short write instead of error
	Cancelled bool
	Closed    bool
	Writes    int
}

func NewSink(failAt int, short bool) *Sink { return &Sink{FailAt: failAt, Short: short} }

func (s *Sink) Write(p []byte) (int, error) {
	s.Writes++
	if s.FailAt >= 0 && s.buf.Len()+len(p) > s.FailAt {
		n := s.FailAt - s.buf.Len()
		if n < 0 {
			n = 0
		}
		s.buf.Write(p[:n])
		if s.Short {
			return n, io.ErrShortWrite
		}
		return n, errors.New("simulated disk: write failed")
	}
	return s.buf.Write(p)
}
func (s *Sink) Close() error  { s.Closed = true; return nil }
func (s *Sink) ID() string    { return "sim-snapshot" }
func (s *Sink) Cancel() error { s.Cancelled = true; return nil }
func (s *Sink) Bytes() []byte { return s.buf.Bytes() }

// Reader is the io.ReadCloser handed to FSM.Restore, with injectable faults.
type Reader struct {
	data   []byte
	pos    int
	ErrAt  int // return an error once pos reaches ErrAt (<0 never)
	EOFAt  int // pretend the stream ends here (<0 never)
	Chunk  int // max bytes per Read (0 = unlimited)
	Closed bool
}

func NewReader(b []byte) *Reader { return &Reader{data: b, ErrAt: -1, EOFAt: -1} }

func (r *Reader) Read(p []byte) (int, error) {
	limit := len(r.data)
	if r.EOFAt >= 0 && r.EOFAt < limit {
		limit = r.EOFAt
	}
	if r.ErrAt >= 0 && r.ErrAt < limit {
		limit = r.ErrAt
	}
	if r.pos >= limit {
		if r.ErrAt >= 0 && r.pos >= r.ErrAt {
			return 0, errors.New("simulated transport: read failed")
		}
		return 0, io.EOF
	}
	n := len(p)
	if r.Chunk > 0 && n > r.Chunk {
		n = r.Chunk
	}
	if n > limit-r.pos {
		n = limit - r.pos
	}
	copy(p, r.data[r.pos:r.pos+n])
	r.pos += n
	return n, nil
}
func (r *Reader) Close() error { r.Closed = true; return nil }

// SnapshotBytes takes and persists a snapshot right now (no overlap with applies).
func (r *Replica) SnapshotBytes() ([]byte, error) {
	snap, err := r.FSM.Snapshot()
	if err != nil {
		return nil, err
	}
	defer snap.Release()
	sink := NewSink(-1, false)
	if err := snap.Persist(sink); err != nil {
		return nil, err
	}
	return bytes.Clone(sink.Bytes()), nil
}

func (r *Replica) Restore(b []byte) (err error) {
	defer func() {
		if p := recover(); p != nil {
			err = fmt.Errorf("panic in FSM.Restore: %v", p)
		}
	}()
	return r.FSM.Restore(NewReader(b))
}

// ---------------------------------------------------------------------------
// canonical dump

// Dump is the canonical rendering of every memdb table: table -> sorted rows.
type Dump map[string][]string

func (r *Replica) Dump(skipFields ...string) Dump {
	d := Dump{}
	err := r.State().WalkAllTables(func(table string, item interface{}) bool {
		d[table] = append(d[table], simkit.Canon(item, skipFields...))
		return true
	})
	if err != nil {
		panic(err)
	}
	for _, rows := range d {
		sort.Strings(rows)
	}
	return d
}

// DumpMasked is Dump with the Raft indexes of derived row types masked.
func (r *Replica) DumpMasked(mask map[string]bool) Dump {
	d := Dump{}
	err := r.State().WalkAllTables(func(table string, item interface{}) bool {
		d[table] = append(d[table], simkit.CanonMasked(item, mask))
		return true
	})
	if err != nil {
		panic(err)
	}
	for _, rows := range d {
		sort.Strings(rows)
	}
	return d
}

func (d Dump) Tables() []string {
	ts := make([]string, 0, len(d))
	for t := range d {
		ts = append(ts, t)
	}
	sort.Strings(ts)
	return ts
}

func (d Dump) String() string {
	var sb strings.Builder
	for _, t := range d.Tables() {
		for _, row := range d[t] {
			sb.WriteString(t)
			sb.WriteString(" | ")
			sb.WriteString(row)
			sb.WriteString("\n")
		}
	}
	return sb.String()
}

// Rows returns the number of rows over all tables.
func (d Dump) Rows() int {
	n := 0
	for _, r := range d {
		n += len(r)
	}
	return n
}

// Diff returns a description of the first few differing rows ("" if equal).
func (d Dump) Diff(o Dump, exempt func(table string) bool) string {
	var out []string
	seen := map[string]bool{}
	for _, t := range append(d.Tables(), o.Tables()...) {
		if seen[t] || (exempt != nil && exempt(t)) {
			continue
		}
		seen[t] = true
		a, b := d[t], o[t]
		am, bm := map[string]int{}, map[string]int{}
		for _, x := range a {
			am[x]++
		}
		for _, x := range b {
			bm[x]++
		}
		for _, x := range a {
			if am[x] != bm[x] {
				out = append(out, fmt.Sprintf("table %s: only in A (x%d vs x%d): %s", t, am[x], bm[x], simkit.Trunc(x, 700)))
				am[x] = bm[x]
			}
		}
		for _, x := range b {
			if am[x] != bm[x] {
				out = append(out, fmt.Sprintf("table %s: only in B (x%d vs x%d): %s", t, bm[x], am[x], simkit.Trunc(x, 700)))
				bm[x] = am[x]
			}
		}
		if len(out) > 6 {
			break
		}
	}
	return strings.Join(out, "\n")
}

// TableOfDiff names the tables that differ (for known-finding signatures).
func (d Dump) DiffTables(o Dump) []string {
	var out []string
	seen := map[string]bool{}
	for _, t := range append(d.Tables(), o.Tables()...) {
		if seen[t] {
			continue
		}
		seen[t] = true
		if strings.Join(d[t], "\n") != strings.Join(o[t], "\n") {
			out = append(out, t)
		}
	}
	sort.Strings(out)
	return out
}

// CanonResult renders an Apply result for cross-replica comparison.
func CanonResult(v any) string {
	if err, ok := v.(error); ok {
		return "err:" + err.Error()
	}
	return simkit.Canon(v)
}

var _ = structs.RegisterRequestType

func setWatchLimit(n int) { state.VerifSetWatchLimit(n) }
