//go:build verif

package fsmworld

import (
	"encoding/json"
	"fmt"
	"math/rand/v2"
	"sort"
	"strings"
	"testing"
	"time"

	"github.com/hashicorp/go-hclog"

	"github.com/hashicorp/consul/agent/consul/state"
	"github.com/hashicorp/consul/agent/consul/stream"
	"github.com/hashicorp/consul/agent/grpc-external/services/peerstream"
	"github.com/hashicorp/consul/agent/structs"
	"github.com/hashicorp/consul/internal/verifsim/simkit"
	"github.com/hashicorp/consul/proto/private/pbpeering"
	"github.com/hashicorp/consul/proto/private/pbpeerstream"
)

// C17: peering imports mirror exactly what was exported and touch nothing else.
//
// Two clusters, each a real FSM behind its own simulated log. The exporting
// cluster E gets a generated catalog history plus exported-services entries and
// a peering; what it offers the peer is read from its real store
// (ExportedServicesForPeer, CheckServiceNodes) and turned into the real stream
// messages. The importing cluster I holds a local catalog and imports of
// another peer with colliding node / service / check names; every message is
// handed to the real peerstream handlers (processResponse -> handleUpsert ->
// handleUpdateService / handleUpsertExportedServiceList) whose Backend proposes
// to I's log - and may fail or lose the reply at any single call of a
// reconciliation, leaving it half done. Messages are repeated (reconnect).
//
// After every message: rows of I that do not belong to the peer are byte-identical
// to before; after a message processed without error the imported instances of
// that service equal the snapshot, nodes without any imported service are gone,
// services no longer in the exported list are gone; a repeated message leaves
// all of that true. On the exporting side after every write: the offered list equals the
// reference derivation from the exported-services entry. After the plan, one
// fault-free pass over list and services makes the import equal to the export.
type C17 struct{}

func (C17) Decode(raw []byte) (simkit.Plan, error) { return DecodePlan(raw) }

const impPeer = "peerA" // the name under which I knows E

func (C17) Generate(rng *rand.Rand, tier string, runIdx uint64) simkit.Plan {
	p := &Plan{Cfg: Cfg{GCTTL: "15m", GCGran: "30s", Extra: map[string]string{}}}
	faulty := simkit.Chance(rng, 55)
	ue := DefaultUniverse()
	if simkit.Chance(rng, 50) {
		// node names keep their case in the catalog and on the stream
		ue.Nodes = []string{"n1", "N2", "n3"}
	}
	ge := NewGen(rng, ue, Weights{Kinds: simkit.Chance(rng, 30)})
	ui := DefaultUniverse()
	ui.Nodes = ue.Nodes
	ui.Peers = []string{"", "", "peerB"}
	gi := NewGen(rng, ui, Weights{Peer: true})
	pre := func(s Step, side string) Step { s.Op = side + ":" + s.Op; return s }
	exported := func() Step {
		var svcs []M
		for _, n := range []string{"web", "api", "db", "*", "ghost"} {
			if !simkit.Chance(rng, 45) {
				continue
			}
			var cons []M
			for _, peer := range []string{"toI", "toI", "other"} {
				if simkit.Chance(rng, 50) {
					cons = append(cons, M{"Peer": peer})
				}
			}
			if len(cons) == 0 {
				cons = []M{{"Peer": "other"}}
			}
			svcs = append(svcs, M{"Name": n, "Consumers": cons})
		}
		op := "ce.upsert"
		if simkit.Chance(rng, 10) {
			op = "ce.delete"
		}
		return Step{Op: "e:" + op, Text: mustJSON(M{"Kind": "exported-services", "Name": "default", "Services": svcs})}
	}
	eOp := func() Step {
		switch simkit.Weighted(rng, []int{55, 25, 14, 3, 3}) {
		case 0:
			return pre(ge.Register(), "e")
		case 1:
			return pre(ge.Deregister(), "e")
		case 2:
			return exported()
		case 3:
			return Step{Op: "e:ce." + simkit.Pick(rng, []string{"upsert", "delete"}), Text: mustJSON(M{"Kind": "service-resolver", "Name": simkit.Pick(rng, []string{"web", "chain"}), "ConnectTimeout": "5s"})}
		default:
			// (a peering is never renamed in place: the endpoint refuses it and the store dereferences nil on it)
			if simkit.Chance(rng, 50) {
				return Step{Op: "e:peer.write", ID: PeerUUID(2), Name: "other", N: 2}
			}
			return Step{Op: "e:peer.write", ID: PeerUUID(1), Name: "toI", N: 2, Text2: simkit.Pick(rng, []string{"", "prod"})}
		}
	}
	iOp := func() Step {
		// sessions and locks of the importing cluster hang on local checks whose node and check
		// names the imported rows may share
		switch simkit.Weighted(rng, []int{55, 20, 15, 10}) {
		case 0:
			return pre(gi.Register(), "i")
		case 1:
			return pre(gi.Deregister(), "i")
		case 2:
			return pre(gi.SessionCreate(), "i")
		}
		return pre(Step{Op: "kv.lock", Key: simkit.Pick(rng, []string{"a", "b"}), Val: "v1", Sess: gi.sess()}, "i")
	}
	// prelude (the leader of a connect-enabled cluster initializes the CA configuration first)
	p.Steps = append(p.Steps, Step{Op: "e:ca.set-config", Text: "72h", Idx: "zero"})
	p.Steps = append(p.Steps, Step{Op: "e:peer.write", ID: PeerUUID(1), Name: "toI", N: 2})
	p.Steps = append(p.Steps, exported())
	for i, n := 0, 3+rng.IntN(10); i < n; i++ {
		p.Steps = append(p.Steps, eOp())
	}
	for i, n := 0, rng.IntN(10); i < n; i++ {
		p.Steps = append(p.Steps, iOp())
	}
	subjects := func() string {
		node := simkit.Pick(rng, ue.Nodes)
		svc := simkit.Pick(rng, []string{"web", "api", "db"}) + simkit.Pick(rng, []string{"", "1", "2"})
		switch rng.IntN(6) {
		case 0:
			return "node:" + node
		case 1:
			return "svc:" + node + "/" + svc
		case 2:
			return "checks:" + node
		case 3:
			return "dsvc:" + node + "/" + svc
		case 4:
			return "dchk:" + node
		default:
			return "dnode:" + node
		}
	}
	n := 12 + rng.IntN(45)
	for len(p.Steps) < n {
		switch simkit.Weighted(rng, []int{38, 10, 30, 10, 12}) {
		case 0:
			p.Steps = append(p.Steps, eOp())
		case 1:
			p.Steps = append(p.Steps, iOp())
		case 2:
			p.Steps = append(p.Steps, Step{Op: "send.svc", Svc: simkit.Pick(rng, []string{"web", "api", "db"}), Flag: simkit.Chance(rng, 25)})
		case 3:
			p.Steps = append(p.Steps, Step{Op: "send.list", Flag: simkit.Chance(rng, 25)})
		case 4:
			if faulty {
				p.Steps = append(p.Steps, Step{Op: "fault.rule", ID: subjects(), Text: simkit.Pick(rng, []string{"not-leader", "not-leader", "lost-reply"}), N: int64(1 + rng.IntN(2))})
			}
		}
	}
	return p
}

func (w C17) Execute(t *testing.T, pl simkit.Plan, r *simkit.Run) (v *simkit.Violation) {
	if err := simkit.Bubble(t, func() { v = w.execute(pl.(*Plan), r) }); err != nil {
		return &simkit.Violation{Class: "harness-panic", Invariant: "no-escaped-panic", Detail: err.Error()}
	}
	return v
}

type peerRule struct {
	subject, kind string
	left          int
}

type peerWorld struct {
	r     *simkit.Run
	E, I  *Cluster
	srv   *peerstream.Server
	st    *peerstream.MutableStatus
	rules []*peerRule
	nonce int
	// per message
	calls       []string
	proposals   int
	failed      bool
	cutShort    map[string]bool // nodes registered by an update that then failed
	noCA        bool
	anyFailed   bool
	lastRefused string
}

// ---- the Backend of the importing cluster's stream handler

type peerBackend struct{ w *peerWorld }

func (b peerBackend) Subscribe(*stream.SubscribeRequest) (*stream.Subscription, error) {
	panic("not used by the import path")
}
func (b peerBackend) IsLeader() bool                                     { return true }
func (b peerBackend) SetLeaderAddress(string)                            {}
func (b peerBackend) GetLeaderAddress() string                           { return "" }
func (b peerBackend) ValidateProposedPeeringSecret(string) (bool, error) { return true, nil }
func (b peerBackend) PeeringSecretsWrite(*pbpeering.SecretsWriteRequest) error {
	panic("not used by the import path")
}
func (b peerBackend) PeeringTerminateByID(*pbpeering.PeeringTerminateByIDRequest) error {
	panic("not used by the import path")
}
func (b peerBackend) PeeringTrustBundleWrite(*pbpeering.PeeringTrustBundleWriteRequest) error {
	panic("not used by the import path")
}
func (b peerBackend) PeeringWrite(*pbpeering.PeeringWriteRequest) error {
	panic("not used by the import path")
}

func (w *peerWorld) fault(subject string) string {
	for _, ru := range w.rules {
		if ru.left > 0 && ru.subject == subject {
			ru.left--
			w.failed = true
			w.r.Hit("fault.backend-" + ru.kind)
			return ru.kind
		}
	}
	return ""
}

func (b peerBackend) CatalogRegister(req *structs.RegisterRequest) error {
	w := b.w
	subject := "node:" + req.Node
	switch {
	case req.Service != nil:
		subject = "svc:" + req.Node + "/" + req.Service.ID
	case len(req.Checks) > 0 || req.Check != nil:
		subject = "checks:" + req.Node
	}
	f := w.fault(subject)
	w.proposals++
	_, err := w.I.ApplyRaw(structs.RegisterRequestType, req, "import:"+subject, f)
	w.calls = append(w.calls, fmt.Sprintf("Register %s -> %v", subject, err))
	return err
}

func (b peerBackend) CatalogDeregister(req *structs.DeregisterRequest) error {
	w := b.w
	subject := "dnode:" + req.Node
	switch {
	case req.ServiceID != "":
		subject = "dsvc:" + req.Node + "/" + req.ServiceID
	case req.CheckID != "":
		subject = "dchk:" + req.Node
	}
	f := w.fault(subject)
	w.proposals++
	_, err := w.I.ApplyRaw(structs.DeregisterRequestType, req, "import:"+subject, f)
	w.calls = append(w.calls, fmt.Sprintf("Deregister %s -> %v", subject, err))
	return err
}

// ---- observations

var peerSkip = []string{"RaftIndex", "PeerName", "CreateIndex", "ModifyIndex", "EnterpriseMeta"}

// instances renders the instances of a service: "node/serviceID" -> canonical content.
func instances(csns structs.CheckServiceNodes, nodeChecks map[string]bool) map[string]string {
	out := map[string]string{}
	for _, c := range csns {
		var checks []string
		for _, hc := range c.Checks {
			if hc.ServiceID == "" && nodeChecks != nil && !nodeChecks[c.Node.Node+"/"+string(hc.CheckID)] {
				continue
			}
			// ServiceTags of a check is a copy of its service's tags made when the check is registered:
			// the importing catalog makes its own copy from the imported instance
			// Type, Interval, Timeout and ExposedPort are display attributes the catalog does not treat as
			// content either (a registration that changes only them is not stored, see HealthCheck.IsSame)
			checks = append(checks, simkit.Canon(hc, append([]string{"ServiceTags", "Type", "Interval", "Timeout", "ExposedPort"}, peerSkip...)...))
		}
		sort.Strings(checks)
		out[c.Node.Node+"/"+c.Service.ID] = fmt.Sprintf("node=%s service=%s checks=%v", simkit.Canon(c.Node, peerSkip...), simkit.Canon(c.Service, peerSkip...), checks)
	}
	return out
}

// foreignRows: every row of the importing cluster that does not belong to the peer.
func foreignRows(st *state.Store) map[string]string {
	out := map[string]string{}
	n := 0
	st.WalkAllTables(func(table string, item interface{}) bool {
		if table == "index" || table == "tombstones" {
			return true
		}
		row := simkit.Canon(item)
		if strings.Contains(row, impPeer) {
			return true
		}
		n++
		out[fmt.Sprintf("%s#%s", table, row)] = ""
		return true
	})
	return out
}

func rowsDiff(before, after map[string]string) string {
	var d []string
	for k := range before {
		if _, ok := after[k]; !ok {
			d = append(d, "- "+simkit.Trunc(k, 300))
		}
	}
	for k := range after {
		if _, ok := before[k]; !ok {
			d = append(d, "+ "+simkit.Trunc(k, 300))
		}
	}
	sort.Strings(d)
	return strings.Join(d, "\n    ")
}

func (w *peerWorld) importedServiceNames() []string {
	_, list, err := w.I.L.State().ServiceList(nil, structs.WildcardEnterpriseMetaInDefaultPartition(), impPeer)
	if err != nil {
		panic(err)
	}
	var out []string
	for _, sn := range list {
		out = append(out, sn.Name)
	}
	sort.Strings(out)
	return out
}

// emptyNodes: imported nodes that carry no imported service.
func (w *peerWorld) emptyNodes() []string {
	st := w.I.L.State()
	_, nodes, err := st.Nodes(nil, structs.WildcardEnterpriseMetaInDefaultPartition(), impPeer)
	if err != nil {
		panic(err)
	}
	var out []string
	for _, n := range nodes {
		_, list, _ := st.NodeServiceList(nil, n.Node, structs.WildcardEnterpriseMetaInDefaultPartition(), impPeer)
		if list == nil || len(list.Services) == 0 {
			out = append(out, n.Node)
		}
	}
	return out
}

// send hands one message to the handler and judges the outcome.
func (w *peerWorld) send(i int, what string, msg *pbpeerstream.ReplicationMessage_Response, check func() string, repeat bool) *simkit.Violation {
	mk := func(class, inv, detail string) *simkit.Violation {
		return &simkit.Violation{Property: "C17", Class: class, Invariant: inv, Step: i, Culprit: strings.SplitN(what, " ", 2)[0],
			Detail: fmt.Sprintf("%s: %s\n  backend calls: %v", what, detail, w.calls)}
	}
	for pass := 0; pass < 2; pass++ {
		w.nonce++
		msg.Nonce = fmt.Sprintf("n%d", w.nonce)
		before := foreignRows(w.I.L.State())
		w.calls, w.proposals, w.failed = nil, 0, false
		_, err := peerstream.VerifProcessResponse(w.srv, impPeer, "", w.st, msg)
		sort.Strings(w.calls) // the handler walks its snapshot in map order
		w.r.Eventf("%s pass=%d err=%v", what, pass, err != nil)
		for _, c := range w.calls {
			w.r.Eventf("   %s", c)
		}
		w.r.SigSet(fmt.Sprintf("%s:%v:%d", strings.SplitN(what, " ", 2)[0], err != nil, len(w.calls)))
		w.r.Hit("probe.messages")
		if w.I.Fatal != nil {
			return mk("panic", "apply-does-not-panic", w.I.Fatal.Error())
		}
		if d := rowsDiff(before, foreignRows(w.I.L.State())); d != "" {
			return mk("import-interference", "rows-of-others-untouched", "rows that do not belong to peer "+impPeer+" changed:\n    "+d)
		}
		if err != nil {
			// a reconciliation cut short after it registered a node
			// (registered a node and stopped before its instances, or removed the instances and
			// stopped before the node): every node the update touched may be left without service
			for _, c := range w.calls {
				f := strings.Fields(c)
				if len(f) >= 2 {
					if i := strings.Index(f[1], ":"); i >= 0 {
						w.cutShort[strings.SplitN(f[1][i+1:], "/", 2)[0]] = true
					}
				}
			}
			if !w.failed {
				// The importing catalog itself refused a registration (a node renamed by id in the exporter
				// collides with rows of an instance whose own update has not arrived yet): the message is
				// answered with a NACK and nothing is claimed about it; the final passes must get through.
				w.r.Hit("probe.messages-refused-by-catalog")
				w.lastRefused = err.Error()
			}
			w.r.Hit("probe.messages-failed")
			w.r.MapOrdered = true // the handler walks its snapshot in map order: how far it got is not ours to decide
			w.anyFailed = true
			return nil
		}
		if w.failed {
			// a lost reply surfaces as an error of the call; a handler that succeeds anyway swallowed it
			return mk("import-mismatch", "failed-backend-call-fails-the-message", "a backend call failed but the message was acknowledged")
		}
		w.r.Hit("probe.messages-processed")
		if d := check(); d != "" {
			return mk("import-mismatch", "import-equals-export", d)
		}
		e := w.emptyNodes()
		known := len(e) > 0
		for _, n := range e {
			known = known && w.cutShort[n]
		}
		if known {
			// known finding C17-imported-node-left-behind-by-failed-update
			w.r.Hit("known-finding.C17-imported-node-left-behind-by-failed-update")
		} else if len(e) > 0 {
			return mk("import-mismatch", "no-imported-node-without-service", fmt.Sprintf("imported nodes without any imported service remain: %v", e))
		}
		if pass == 1 {
			w.r.Hit("probe.repeated-message-judged")
			// (the property does not ask for idempotence: a repeated message may rewrite entries,
			// e.g. checks whose copy of the service tags is stale in the exporting catalog; counted only)
			if w.proposals != 0 {
				w.r.Hit("probe.repeated-message-wrote-again")
			}
		}
		if !repeat {
			break
		}
	}
	return nil
}

func (w *peerWorld) exportedList() *structs.ExportedServiceList {
	_, list, err := w.E.L.State().ExportedServicesForPeer(nil, PeerUUID(1), "dc1")
	if err != nil && strings.Contains(err.Error(), "no cluster ca config setup") {
		w.noCA = true // a shrunk plan without the CA step: nothing can be offered
		return &structs.ExportedServiceList{}
	}
	if err != nil {
		panic(err)
	}
	if list == nil {
		list = &structs.ExportedServiceList{}
	}
	return list
}

func (w *peerWorld) sendList(i int, repeat bool) *simkit.Violation {
	list := w.exportedList()
	msg, err := peerstream.VerifExportedListResponse(peerstream.VerifNewStatus(), list)
	if err != nil {
		panic(err)
	}
	keep := map[string]bool{}
	var names []string
	for _, sn := range list.Services {
		keep[sn.Name], keep[sn.Name+"-sidecar-proxy"] = true, true
		names = append(names, sn.Name)
	}
	sort.Strings(names)
	before := w.importedServiceNames()
	return w.send(i, fmt.Sprintf("list %v", names), msg, func() string {
		after := w.importedServiceNames()
		want := []string{}
		for _, n := range before {
			if keep[n] {
				want = append(want, n)
			}
		}
		if fmt.Sprint(after) != fmt.Sprint(want) {
			return fmt.Sprintf("imported services were %v, the list exports %v: expected %v to remain, found %v", before, names, want, after)
		}
		return ""
	}, repeat)
}

func (w *peerWorld) sendService(i int, svc string, repeat bool) *simkit.Violation {
	_, csns, err := w.E.L.State().CheckServiceNodes(nil, svc, structs.DefaultEnterpriseMetaInDefaultPartition(), "")
	if err != nil {
		panic(err)
	}
	msg, err := peerstream.VerifServiceResponse(svc, csns)
	if err != nil {
		panic(err)
	}
	// A node check is shared by every instance on its node and is only reconciled by the update of
	// a service that already had an instance there: until the exporter has sent all affected
	// services, the import may still hold node checks this snapshot no longer has. They are
	// compared exactly once everything was sent (see the final pass).
	inSnap := map[string]bool{}
	for _, c := range csns {
		for _, hc := range c.Checks {
			if hc.ServiceID == "" {
				inSnap[c.Node.Node+"/"+string(hc.CheckID)] = true
			}
		}
	}
	want := instances(csns, nil)
	return w.send(i, fmt.Sprintf("service %s (%d instances)", svc, len(csns)), msg, func() string {
		return w.compareService(svc, want, inSnap)
	}, repeat)
}

func (w *peerWorld) compareService(svc string, want map[string]string, nodeChecks map[string]bool) string {
	_, got, err := w.I.L.State().CheckServiceNodes(nil, svc, structs.DefaultEnterpriseMetaInDefaultPartition(), impPeer)
	if err != nil {
		panic(err)
	}
	return setDiff(want, instances(got, nodeChecks))
}

// exportReference: what the exported-services entry offers the peering, derived from the entry and the catalog alone.
func (w *peerWorld) exportReference() []string {
	st := w.E.L.State()
	_, peering, _ := st.PeeringReadByID(nil, PeerUUID(1))
	if peering == nil {
		return nil
	}
	_, entry, _ := st.ConfigEntry(nil, structs.ExportedServices, "default", structs.DefaultEnterpriseMetaInDefaultPartition())
	if entry == nil {
		return nil
	}
	raw, _ := json.Marshal(entry)
	var e struct {
		Services []struct {
			Name      string
			Consumers []struct{ Peer string }
		}
	}
	json.Unmarshal(raw, &e)
	set := map[string]bool{}
	for _, s := range e.Services {
		found := false
		for _, c := range s.Consumers {
			found = found || c.Peer == peering.Name
		}
		if !found || s.Name == "consul" {
			continue
		}
		if s.Name != "*" {
			set[s.Name] = true
			continue
		}
		st.WalkAllTables(func(table string, item interface{}) bool {
			if table == "services" {
				sn := item.(*structs.ServiceNode)
				if sn.PeerName == "" && sn.ServiceKind == structs.ServiceKindTypical && sn.ServiceName != "consul" {
					set[sn.ServiceName] = true
				}
			}
			return true
		})
	}
	return simkit.SortedKeys(set)
}

func (C17) execute(p *Plan, r *simkit.Run) *simkit.Violation {
	w := &peerWorld{r: r, cutShort: map[string]bool{}}
	w.E = NewCluster(r, parseDur(p.Cfg.GCTTL, 15*time.Minute), parseDur(p.Cfg.GCGran, 30*time.Second))
	defer w.E.Close()
	w.I = NewCluster(r, parseDur(p.Cfg.GCTTL, 15*time.Minute), parseDur(p.Cfg.GCGran, 30*time.Second))
	defer w.I.Close()
	w.srv = peerstream.NewServer(peerstream.Config{Backend: peerBackend{w}, GetStore: func() peerstream.StateStore { return w.I.L.State() },
		Logger: hclog.New(&hclog.LoggerOptions{Level: hclog.Off}), Datacenter: "dc1", ConnectEnabled: true})
	w.st = peerstream.VerifNewStatus()
	for i, s := range p.Steps {
		r.Steps++
		switch {
		case strings.HasPrefix(s.Op, "e:"):
			t := s
			t.Op = strings.TrimPrefix(s.Op, "e:")
			r.Sig(s.Op)
			w.E.Do(t)
			if w.E.Fatal != nil {
				return &simkit.Violation{Property: "C17", Class: "panic", Invariant: "apply-does-not-panic", Step: i, Culprit: s.Op, Detail: w.E.Fatal.Error()}
			}
			// export side: the offered list is exactly what the entry names for this peering
			got := []string{}
			for _, sn := range w.exportedList().Services {
				got = append(got, sn.Name)
			}
			sort.Strings(got)
			want := w.exportReference()
			r.Hit("probe.export-list-judged")
			if w.noCA {
				w.noCA = false
				continue
			}
			if fmt.Sprint(got) != fmt.Sprint(append([]string{}, want...)) {
				return &simkit.Violation{Property: "C17", Class: "export-mismatch", Invariant: "offered-services-equal-entry-consumers", Step: i, Culprit: t.Op,
					Detail: fmt.Sprintf("after %s the exporting cluster offers %v to the peer, the exported-services entry and the catalog give %v", s.Short(), got, want)}
			}
		case strings.HasPrefix(s.Op, "i:"):
			t := s
			t.Op = strings.TrimPrefix(s.Op, "i:")
			r.Sig(s.Op)
			w.I.Do(t)
			if w.I.Fatal != nil {
				return &simkit.Violation{Property: "C17", Class: "panic", Invariant: "apply-does-not-panic", Step: i, Culprit: s.Op, Detail: w.I.Fatal.Error()}
			}
		case s.Op == "send.list":
			if v := w.sendList(i, s.Flag); v != nil {
				return v
			}
		case s.Op == "send.svc":
			if v := w.sendService(i, s.Svc, s.Flag); v != nil {
				return v
			}
		case s.Op == "fault.rule":
			w.rules = append(w.rules, &peerRule{subject: s.ID, kind: s.Text, left: int(s.N)})
		}
	}
	// faults over: the list and every offered service once more; the import must equal the export
	w.rules = nil
	offered := map[string]bool{}
	for pass := 0; ; pass++ {
		w.anyFailed = false
		if v := w.sendList(len(p.Steps), false); v != nil {
			return v
		}
		for _, sn := range w.exportedList().Services {
			offered[sn.Name] = true
			if v := w.sendService(len(p.Steps), sn.Name, true); v != nil {
				return v
			}
		}
		if !w.anyFailed {
			break
		}
		r.Hit("probe.final-pass-repeated")
		if pass == 3 {
			return &simkit.Violation{Property: "C17", Class: "no-convergence", Invariant: "fault-free-passes-get-through", Step: len(p.Steps), Culprit: "final",
				Detail: "four fault-free passes over the list and every offered service and the importing cluster still refuses an update: " + w.lastRefused}
		}
	}
	for name := range offered {
		_, csns, _ := w.E.L.State().CheckServiceNodes(nil, name, structs.DefaultEnterpriseMetaInDefaultPartition(), "")
		if d := w.compareService(name, instances(csns, nil), nil); d != "" {
			return &simkit.Violation{Property: "C17", Class: "import-mismatch", Invariant: "import-equals-export", Step: len(p.Steps), Culprit: "final",
				Detail: fmt.Sprintf("after a fault-free pass over the list and every offered service, service %s differs (node checks included):\n    %s", name, d)}
		}
	}
	for _, n := range w.importedServiceNames() {
		if !offered[n] && !offered[strings.TrimSuffix(n, "-sidecar-proxy")] {
			return &simkit.Violation{Property: "C17", Class: "import-mismatch", Invariant: "import-equals-export", Step: len(p.Steps), Culprit: "final",
				Detail: fmt.Sprintf("after a fault-free pass the importing cluster still holds service %s which is not exported", n)}
		}
	}
	r.Hit("probe.final-convergence-checked")
	r.Nontrivial = len(w.E.Log) >= 3
	return nil
}
