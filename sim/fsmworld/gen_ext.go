//go:build verif

package fsmworld

import (
	"encoding/json"
	"fmt"

	"github.com/hashicorp/consul/internal/verifsim/simkit"
)

func mustJSON(v any) string {
	b, err := json.Marshal(v)
	if err != nil {
		panic(err)
	}
	return string(b)
}

type M = map[string]any

var aclRules = []string{
	`key_prefix "" { policy = "read" }`,
	`key "a" { policy = "write" } key_prefix "a/" { policy = "deny" }`,
	`service_prefix "" { policy = "read" } service "web" { policy = "write" }`,
	`node_prefix "" { policy = "write" } session_prefix "" { policy = "write" }`,
	`operator = "read" acl = "write"`,
	`service "api" { policy = "write" intentions = "read" }`,
}

// ConfigEntryJSON draws a config entry (possibly invalid, possibly referring to
// entries that do not exist) in the JSON shape the HTTP API accepts.
func (g *Gen) ConfigEntryJSON() string {
	svc := func() string { return g.pick(g.U.Services) }
	proto := func() string { return g.pick([]string{"tcp", "http", "http", "http2", "grpc"}) }
	switch simkit.Weighted(g.R, []int{16, 6, 16, 10, 10, 10, 8, 14, 4, 8, 3}) {
	case 0:
		e := M{"Kind": "service-defaults", "Name": svc(), "Protocol": proto()}
		if simkit.Chance(g.R, 20) {
			e["MeshGateway"] = M{"Mode": g.pick([]string{"local", "remote", "none"})}
		}
		if simkit.Chance(g.R, 15) {
			e["Destination"] = M{"Addresses": []string{g.pick([]string{"example.com", "10.9.9.9"})}, "Port": 443}
		}
		if simkit.Chance(g.R, 15) {
			e["UpstreamConfig"] = M{"Defaults": M{"ConnectTimeoutMs": 1000 + g.R.IntN(3)}}
		}
		return mustJSON(e)
	case 1:
		e := M{"Kind": "proxy-defaults", "Name": "global", "Config": M{"protocol": proto()}}
		if simkit.Chance(g.R, 30) {
			e["MeshGateway"] = M{"Mode": g.pick([]string{"local", "remote"})}
		}
		return mustJSON(e)
	case 2:
		e := M{"Kind": "service-resolver", "Name": svc()}
		switch g.R.IntN(5) {
		case 0:
			e["Redirect"] = M{"Service": svc()}
		case 1:
			e["Subsets"] = M{"v1": M{"Filter": "Service.Meta.version == v1"}, "v2": M{"Filter": "Service.Meta.version == v2"}}
			e["DefaultSubset"] = g.pick([]string{"v1", "v2", "v3"})
		case 2:
			e["Failover"] = M{"*": M{"Service": svc()}}
		case 3:
			e["Failover"] = M{"*": M{"Datacenters": []string{"dc2", "dc3"}}}
			e["ConnectTimeout"] = "5s"
		case 4:
			e["Subsets"] = M{"v1": M{"OnlyPassing": true}}
			e["Redirect"] = M{"Service": svc(), "ServiceSubset": g.pick([]string{"v1", ""})}
		}
		return mustJSON(e)
	case 3:
		a := 10 + g.R.IntN(80)
		splits := []M{{"Weight": a, "Service": svc()}, {"Weight": 100 - a, "Service": svc()}}
		if simkit.Chance(g.R, 30) {
			splits[0]["ServiceSubset"] = "v1"
		}
		if simkit.Chance(g.R, 10) {
			splits[1]["Weight"] = 100 - a + 1 // invalid sum
		}
		return mustJSON(M{"Kind": "service-splitter", "Name": svc(), "Splits": splits})
	case 4:
		routes := []M{{"Match": M{"HTTP": M{"PathPrefix": "/" + g.pick([]string{"admin", "api", "v1"})}}, "Destination": M{"Service": svc()}}}
		if simkit.Chance(g.R, 40) {
			routes = append(routes, M{"Match": M{"HTTP": M{"PathExact": "/x"}}, "Destination": M{"Service": svc(), "ServiceSubset": g.pick([]string{"v1", ""})}})
		}
		return mustJSON(M{"Kind": "service-router", "Name": svc(), "Routes": routes})
	case 5:
		lst := M{"Port": 8080 + g.R.IntN(2), "Protocol": g.pick([]string{"tcp", "http"})}
		if lst["Protocol"] == "tcp" {
			lst["Services"] = []M{{"Name": svc()}}
		} else {
			lst["Services"] = []M{{"Name": g.pick(append(g.wild(), g.U.Services...))}}
			if simkit.Chance(g.R, 40) {
				lst["Services"] = []M{{"Name": svc(), "Hosts": []string{"a.example.com"}}, {"Name": svc()}}
			}
		}
		return mustJSON(M{"Kind": "ingress-gateway", "Name": g.pick([]string{"igw", "igw2"}), "Listeners": []M{lst}})
	case 6:
		svcs := []M{{"Name": g.pick(append(g.wild(), g.U.Services...))}}
		if simkit.Chance(g.R, 40) {
			svcs = append(svcs, M{"Name": svc(), "CAFile": "/etc/ca.pem", "SNI": "x.example.com"})
		}
		return mustJSON(M{"Kind": "terminating-gateway", "Name": g.pick([]string{"tgw", "tgw2"}), "Services": svcs})
	case 7:
		return g.IntentionsJSON()
	case 8:
		e := M{"Kind": "mesh", "TransparentProxy": M{"MeshDestinationsOnly": simkit.Chance(g.R, 50)}}
		if simkit.Chance(g.R, 30) {
			e["Peering"] = M{"PeerThroughMeshGateways": true}
		}
		return mustJSON(e)
	case 9:
		var svcs []M
		n := 1 + g.R.IntN(2)
		for i := 0; i < n; i++ {
			cons := []M{{"Peer": g.pick([]string{"peerA", "peerB"})}}
			if simkit.Chance(g.R, 30) {
				cons = append(cons, M{"Peer": "peerB"})
			}
			svcs = append(svcs, M{"Name": g.pick(append([]string{"*"}, g.U.Services...)), "Consumers": cons})
		}
		return mustJSON(M{"Kind": "exported-services", "Name": "default", "Services": svcs})
	default:
		return mustJSON(M{"Kind": "jwt-provider", "Name": "okta", "Issuer": "https://issuer", "JSONWebKeySet": M{"Remote": M{"URI": "https://jwks"}}})
	}
}

// IntentionsJSON draws a service-intentions entry.
func (g *Gen) IntentionsJSON() string {
	names := append([]string{"*"}, g.U.Services...)
	dest := g.pick(names)
	n := 1 + g.R.IntN(3)
	var srcs []M
	seen := map[string]bool{}
	for i := 0; i < n; i++ {
		s := M{"Name": g.pick(names)}
		if g.W.Peer && simkit.Chance(g.R, 20) {
			s["Peer"] = "peerA"
			if s["Name"] == "*" {
				s["Name"] = g.pick(g.U.Services)
			}
		}
		k := fmt.Sprint(s["Name"], s["Peer"])
		if seen[k] && simkit.Chance(g.R, 80) {
			continue
		}
		seen[k] = true
		if simkit.Chance(g.R, 20) && dest != "*" {
			s["Permissions"] = []M{{"Action": g.pick([]string{"allow", "deny"}), "HTTP": M{"PathPrefix": "/" + g.pick([]string{"a", "b"})}}}
		} else {
			s["Action"] = g.pick([]string{"allow", "deny"})
		}
		srcs = append(srcs, s)
	}
	return mustJSON(M{"Kind": "service-intentions", "Name": dest, "Sources": srcs})
}

// wild: the wildcard service name, unless the world asked for gateway entries without wildcards (the
// wildcard expansion is order dependent on the unchanged tree: known finding C07-wildcard-gateway-link-order-dependent)
func (g *Gen) wild() []string {
	if g.W.NoGatewayWildcard {
		return nil
	}
	return []string{"*"}
}

func (g *Gen) ceName(text string) (kind, name string) {
	var m M
	json.Unmarshal([]byte(text), &m)
	kind, _ = m["Kind"].(string)
	name, _ = m["Name"].(string)
	return
}

func (g *Gen) ConfigEntry() Step {
	text := g.ConfigEntryJSON()
	op := []string{"ce.upsert", "ce.upsert-cas", "ce.delete", "ce.delete-cas"}[simkit.Weighted(g.R, []int{55, 15, 20, 10})]
	s := Step{Op: op, Text: text}
	if op == "ce.upsert-cas" || op == "ce.delete-cas" {
		s.Idx = g.symIdx()
	}
	return s
}

// Ext draws one step from the long tail of command types.
func (g *Gen) Ext() Step {
	r := g.R
	n3 := func() int { return 1 + r.IntN(3) }
	switch simkit.Weighted(r, []int{30, 22, 8, 10, 10, 5, 3, 3, 3, 2, 4}) {
	case 0:
		return g.ConfigEntry()
	case 1: // ACL
		switch simkit.Weighted(r, []int{22, 8, 12, 5, 25, 8, 5, 5, 3, 4, 3}) {
		case 0:
			id := n3()
			s := Step{Op: "acl.policy.set", ID: PolicyUUID(id), Name: fmt.Sprintf("pol%d", id), Text: g.pick(aclRules)}
			if simkit.Chance(r, 10) {
				s.Name = fmt.Sprintf("pol%d", n3()) // name collision
			}
			if simkit.Chance(r, 15) {
				s.List = []string{"dc1"}
			}
			return s
		case 1:
			return Step{Op: "acl.policy.delete", ID: PolicyUUID(n3())}
		case 2:
			id := n3()
			s := Step{Op: "acl.role.set", ID: RoleUUID(id), Name: fmt.Sprintf("role%d", id), List: []string{PolicyUUID(n3())}, Flag: simkit.Chance(r, 20)}
			if simkit.Chance(r, 30) {
				s.Svc = g.pick(g.U.Services)
			}
			return s
		case 3:
			return Step{Op: "acl.role.delete", ID: RoleUUID(n3())}
		case 4:
			id := n3()
			s := Step{Op: "acl.token.set", ID: TokenUUID(id), Text: SecretUUID(id), Flag2: simkit.Chance(r, 25), Flag: simkit.Chance(r, 15)}
			if simkit.Chance(r, 70) {
				s.List = []string{PolicyUUID(n3())}
				// several links: deleting one that is not the last leaves a hole the readers close
				for simkit.Chance(r, 35) && len(s.List) < 3 {
					s.List = append(s.List, PolicyUUID(n3()))
				}
			}
			if simkit.Chance(r, 30) {
				s.List2 = []string{RoleUUID(n3())}
				if simkit.Chance(r, 35) {
					s.List2 = append(s.List2, RoleUUID(n3()))
				}
			}
			if simkit.Chance(r, 20) {
				s.Svc = g.pick(g.U.Services)
			}
			if simkit.Chance(r, 10) {
				s.Node = g.pick(g.U.Nodes)
			}
			if simkit.Chance(r, 20) {
				s.N = int64(60 * (1 + r.IntN(100)))
			}
			if simkit.Chance(r, 25) {
				s.Idx = g.symIdx()
			}
			if simkit.Chance(r, 8) {
				s.Text = SecretUUID(n3()) // secret collision
			}
			if simkit.Chance(r, 8) {
				s.Name = "jwt1"
			}
			return s
		case 5:
			return Step{Op: "acl.token.delete", ID: TokenUUID(n3())}
		case 6:
			return Step{Op: "acl.bootstrap", ID: TokenUUID(9), Text: SecretUUID(9), Idx: g.pick([]string{"zero", "cur", "stale", "future"})}
		case 7:
			return Step{Op: "acl.method.set", Name: g.pick([]string{"jwt1", "jwt2"}), Text: g.pick([]string{"a", "b"}), N: int64(r.IntN(2) * 3600)}
		case 8:
			return Step{Op: "acl.method.delete", Name: g.pick([]string{"jwt1", "jwt2"})}
		case 9:
			return Step{Op: "acl.rule.set", ID: RuleUUID(n3()), Name: g.pick([]string{"jwt1", "jwt2"}), Text: g.pick(g.U.Services)}
		default:
			return Step{Op: "acl.rule.delete", ID: RuleUUID(n3())}
		}
	case 2: // intentions
		switch simkit.Weighted(r, []int{30, 10, 3, 35, 15, 7}) {
		case 0:
			return Step{Op: "ixn.legacy.set", ID: IxnUUID(n3()), Name: g.pick(append([]string{"*"}, g.U.Services...)), Svc: g.pick(append([]string{"*"}, g.U.Services...)), Text: g.pick([]string{"allow", "deny"})}
		case 1:
			return Step{Op: "ixn.legacy.delete", ID: IxnUUID(n3())}
		case 2:
			return Step{Op: "ixn.legacy.delete-all"}
		case 3:
			return Step{Op: "ixn.mut.upsert", Name: g.pick(append([]string{"*"}, g.U.Services...)), Svc: g.pick(append([]string{"*"}, g.U.Services...)), Text: g.pick([]string{"allow", "deny"})}
		case 4:
			return Step{Op: "ixn.mut.delete", Name: g.pick(append([]string{"*"}, g.U.Services...)), Svc: g.pick(append([]string{"*"}, g.U.Services...))}
		default:
			// (the one-way intention-format marker is only ever set in a plan's prelude: servers
			// set it together with the migration of the legacy table, never in mid-history)
			return Step{Op: "ixn.mut.upsert", Name: g.pick(g.U.Services), Svc: g.pick(g.U.Services), Text: g.pick([]string{"allow", "deny"})}
		}
	case 3: // CA
		switch simkit.Weighted(r, []int{20, 25, 25, 10, 5, 10, 5}) {
		case 0:
			return Step{Op: "ca.set-config", Text: g.pick([]string{"72h", "24h"}), Idx: g.pick([]string{"zero", "cur", "stale", "future"})}
		case 1, 2:
			op := "ca.set-roots"
			if r.IntN(2) == 0 {
				op = "ca.set-roots-config"
			}
			s := Step{Op: op, Idx: g.pick([]string{"zero", "cur", "cur", "stale", "future"}), Text: g.pick([]string{"72h", "24h"}), Text2: g.pick([]string{"zero", "cur", "cur", "stale"})}
			k := 1 + r.IntN(3)
			for i := 0; i < k; i++ {
				s.List = append(s.List, fmt.Sprintf("root%d", 1+r.IntN(4)))
			}
			s.N = int64(r.IntN(k + 1)) // index of the active root; k = none active
			if simkit.Chance(r, 10) {
				s.Flag = true // two active roots when N != 0
			}
			return s
		case 3:
			return Step{Op: "ca.provider-state", ID: g.pick([]string{"prov1", "prov2"}), Text: g.pick([]string{"a", "b"})}
		case 4:
			return Step{Op: "ca.delete-provider-state", ID: g.pick([]string{"prov1", "prov2"})}
		case 5:
			return Step{Op: "ca.incr-serial"}
		default:
			return Step{Op: "ca.leaf-index"}
		}
	case 4: // peering
		pn := g.pick([]string{"peerA", "peerB"})
		pid := map[string]int{"peerA": 1, "peerB": 2}[pn]
		switch simkit.Weighted(r, []int{35, 10, 10, 15, 8, 22}) {
		case 0:
			s := Step{Op: "peer.write", ID: PeerUUID(pid), Name: pn, N: int64(r.IntN(4)), Text: PeerUUID(pid + 10), Flag: simkit.Chance(r, 15), Flag2: simkit.Chance(r, 30), M: int64(pid)}
			if simkit.Chance(r, 30) {
				s.List = []string{"10.8.0.1:8502"}
			}
			if simkit.Chance(r, 20) {
				s.Text2 = g.pick([]string{"prod", "dev"})
			}
			// An ID already in use under another name is never generated: the peering endpoints
			// allocate or look up the ID themselves, and the store's error path for that case
			// dereferences a nil pointer (noted in DESIGN.md section 8, not tied to a listed property).
			return s
		case 1:
			return Step{Op: "peer.delete", Name: pn}
		case 2:
			return Step{Op: "peer.terminate", ID: PeerUUID(pid)}
		case 3:
			return Step{Op: "peer.bundle.write", Name: pn, Text: g.pick([]string{"td1", "td2"}), List: []string{"-----BEGIN CERTIFICATE-----\nroot" + pn + "\n-----END CERTIFICATE-----\n"}}
		case 4:
			return Step{Op: "peer.bundle.delete", Name: pn}
		default:
			return Step{Op: "peer.secrets", ID: PeerUUID(pid), Text: g.pick([]string{"generate", "exchange", "promote", "establish"}), M: int64(pid)}
		}
	case 5:
		g.queryN = max(g.queryN, 0)
		return g.PreparedQuery()
	case 6:
		s := Step{Op: "coord", N: int64(r.IntN(100)), Text: g.pick([]string{"", "", "alpha"})}
		k := 1 + r.IntN(3)
		for i := 0; i < k; i++ {
			s.List = append(s.List, g.pick(append([]string{"ghost"}, g.U.Nodes...)))
		}
		return s
	case 7:
		if simkit.Chance(r, 70) {
			return Step{Op: "sysmeta.set", Key: g.pick([]string{"k1", "k2", "virtual-ips"}), Val: g.pick([]string{"true", "x"})}
		}
		// the intention-format marker is a one-way migration flag: servers set it, nothing deletes it
		return Step{Op: "sysmeta.delete", Key: g.pick([]string{"k1", "k2", "virtual-ips"})}
	case 8:
		if simkit.Chance(r, 70) {
			s := Step{Op: "fedstate.set", Name: g.pick([]string{"dc1", "dc2"}), N: int64(r.IntN(50)), Flag: simkit.Chance(r, 20)}
			if simkit.Chance(r, 60) {
				s.List = []string{"gw1"}
			}
			return s
		}
		return Step{Op: "fedstate.delete", Name: g.pick([]string{"dc1", "dc2"})}
	case 9:
		if simkit.Chance(r, 50) {
			return Step{Op: "autopilot", Flag: simkit.Chance(r, 70), Idx: g.pick([]string{"zero", "cur", "stale", "future"}), N: int64(100 + r.IntN(3)), Flag2: simkit.Chance(r, 50)}
		}
		s := Step{Op: "featuregate", Name: g.pick([]string{"feat-a", "feat-b"}), Flag: simkit.Chance(r, 70), Flag2: simkit.Chance(r, 50),
			Idx: g.pick([]string{"zero", "cur", "cur", "stale"}), Text2: g.pick([]string{"zero", "cur", "cur", "stale"}), Text: g.pick([]string{"d1", "d2"})}
		if simkit.Chance(r, 8) {
			s.NoChecks = true
		}
		return s
	default:
		s := Step{Op: "vip.manual", Svc: g.pick(g.U.Services)}
		if g.W.Peer && simkit.Chance(r, 20) {
			s.Peer = "peerA"
		}
		k := r.IntN(3)
		for i := 0; i < k; i++ {
			s.List = append(s.List, fmt.Sprintf("240.9.0.%d", 1+r.IntN(3)))
		}
		return s
	}
}

// PeerSecretRotation: the secret handshake of an accepting peering run twice, so that at the
// end the peering holds an active and a pending stream secret at once; the last promotion
// then frees the first active secret.
func (g *Gen) PeerSecretRotation() []Step {
	pid := 1 + g.R.IntN(2)
	id := PeerUUID(pid)
	a, b := int64(pid), int64(pid+10)
	out := []Step{{Op: "peer.write", ID: id, Name: []string{"", "peerA", "peerB"}[pid], N: 1, Text: PeerUUID(10 + pid), M: a}}
	for _, st := range []Step{
		{Op: "peer.secrets", ID: id, Text: "generate", M: a},
		{Op: "peer.secrets", ID: id, Text: "exchange", M: a},
		{Op: "peer.secrets", ID: id, Text: "promote", M: a},
		{Op: "peer.secrets", ID: id, Text: "generate", M: b},
		{Op: "peer.secrets", ID: id, Text: "exchange", M: b},
	} {
		out = append(out, st)
		if simkit.Chance(g.R, 25) {
			out = append(out, g.Next())
		}
	}
	if simkit.Chance(g.R, 80) {
		out = append(out, Step{Op: "peer.secrets", ID: id, Text: "promote", M: b})
	}
	return out
}
