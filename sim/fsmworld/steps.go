//go:build verif

package fsmworld

import (
	"fmt"
	"strconv"
	"strings"
	"time"

	"github.com/hashicorp/consul/agent/structs"
	"github.com/hashicorp/consul/api"
	"github.com/hashicorp/consul/types"
)

// Step is one element of a W1 plan: a client command, a simulator action or a
// fault. The struct is flat on purpose: plans stay readable JSON, and dropping
// any subset of steps leaves a well-formed plan (references are by name; run
// time values such as "the key's current index" are symbolic, see Idx).
type Step struct {
	Op string `json:"op"`

	// catalog
	Node      string   `json:"node,omitempty"`
	NodeID    string   `json:"node_id,omitempty"`
	Addr      string   `json:"addr,omitempty"`
	NodeMeta  string   `json:"node_meta,omitempty"` // "k=v"
	Loc       string   `json:"loc,omitempty"`       // node locality "region/zone"
	SvcLoc    string   `json:"svc_loc,omitempty"`   // service locality "region/zone"
	Svc       string   `json:"svc,omitempty"`       // service name
	SvcID     string   `json:"svc_id,omitempty"`
	Kind      string   `json:"kind,omitempty"` // "", connect-proxy, connect-native, mesh-gateway, terminating-gateway, ingress-gateway, api-gateway
	Port      int      `json:"port,omitempty"`
	Tags      []string `json:"tags,omitempty"`
	Dest      string   `json:"dest,omitempty"`      // proxy destination service
	Upstreams []string `json:"upstreams,omitempty"` // proxy upstream destination names
	Checks    []Check  `json:"checks,omitempty"`
	Peer      string   `json:"peer,omitempty"`
	SkipNode  bool     `json:"skip_node,omitempty"`
	CheckID   string   `json:"check_id,omitempty"` // deregister check

	// kv / session
	Key       string   `json:"key,omitempty"`
	Val       string   `json:"val,omitempty"`
	Flags     uint64   `json:"flags,omitempty"`
	Sess      string   `json:"sess,omitempty"` // session id
	Idx       string   `json:"idx,omitempty"`  // symbolic index: "", zero, cur, stale, future, or a literal number
	Behavior  string   `json:"behavior,omitempty"`
	TTL       string   `json:"ttl,omitempty"`
	LockDelay string   `json:"lock_delay,omitempty"`
	NodeChks  []string `json:"node_checks,omitempty"`
	SvcChks   []string `json:"svc_checks,omitempty"` // "checkid" or "checkid@ns"
	NoChecks  bool     `json:"no_checks,omitempty"`  // explicit empty NodeChecks (no serfHealth default)

	// generic fields reused by the long tail of command types
	ID    string   `json:"id,omitempty"`
	Name  string   `json:"name,omitempty"`
	Text  string   `json:"text,omitempty"`
	Text2 string   `json:"text2,omitempty"`
	List  []string `json:"list,omitempty"`
	List2 []string `json:"list2,omitempty"`
	N     int64    `json:"n,omitempty"`
	M     int64    `json:"m,omitempty"`
	Flag  bool     `json:"flag,omitempty"`
	Flag2 bool     `json:"flag2,omitempty"`

	// txn
	Ops []Step `json:"ops,omitempty"`

	// simulator actions
	Dur string `json:"dur,omitempty"` // advance
	// fault attached to a client command: "", "not-leader" (fails before append), "lost-reply"
	Fault string `json:"fault,omitempty"`
	// log index gap before this entry (raft no-ops/config changes consume indexes)
	Gap int `json:"gap,omitempty"`
}

type Check struct {
	ID     string `json:"id"`
	Name   string `json:"name,omitempty"`
	Status string `json:"status,omitempty"`
	SvcID  string `json:"svc_id,omitempty"`
	Type   string `json:"type,omitempty"`
	Output string `json:"output,omitempty"`
}

func (s Step) Short() string {
	var b strings.Builder
	b.WriteString(s.Op)
	add := func(k, v string) {
		if v != "" {
			b.WriteString(" " + k + "=" + v)
		}
	}
	add("node", s.Node)
	add("svc", s.Svc)
	add("id", s.SvcID)
	add("kind", s.Kind)
	add("key", s.Key)
	add("sess", tail8(s.Sess))
	add("idx", s.Idx)
	add("name", s.Name)
	add("peer", s.Peer)
	add("dur", s.Dur)
	add("fault", s.Fault)
	if len(s.Ops) > 0 {
		var subs []string
		for _, o := range s.Ops {
			subs = append(subs, o.Short())
		}
		b.WriteString(" [" + strings.Join(subs, "; ") + "]")
	}
	return b.String()
}

func tail8(s string) string {
	if len(s) > 8 {
		return s[len(s)-8:]
	}
	return s
}

// ---------------------------------------------------------------------------
// fixed naming of the small universe

func NodeUUID(n int) string    { return fmt.Sprintf("aaaaaaaa-0000-4000-8000-%012x", n) }
func SessionUUID(n int) string { return fmt.Sprintf("5e551000-0000-4000-8000-%012x", n) }
func QueryUUID(n int) string   { return fmt.Sprintf("9e4e1000-0000-4000-8000-%012x", n) }

// resolveIdx turns a symbolic index into a number given the entity's current
// ModifyIndex (0 = absent).
func resolveIdx(sym string, cur uint64) uint64 {
	switch sym {
	case "", "zero":
		return 0
	case "cur":
		return cur
	case "stale":
		if cur > 1 {
			return cur - 1
		}
		return cur + 7 // entity absent or at index 1: any non-matching non-zero value
	case "future":
		return cur + 1000
	}
	n, _ := strconv.ParseUint(sym, 10, 64)
	return n
}

// ---------------------------------------------------------------------------
// request builders

func (s Step) nodeService() *structs.NodeService {
	if s.Svc == "" {
		return nil
	}
	ns := &structs.NodeService{
		Kind:     structs.ServiceKind(s.Kind),
		ID:       s.SvcID,
		Service:  s.Svc,
		Tags:     s.Tags,
		Port:     s.Port,
		PeerName: s.Peer,
	}
	if ns.ID == "" {
		ns.ID = ns.Service
	}
	switch s.Kind {
	case "connect-native":
		ns.Kind = structs.ServiceKindTypical
		ns.Connect.Native = true
	case "connect-proxy":
		ns.Proxy.DestinationServiceName = s.Dest
		ns.Proxy.DestinationServiceID = s.Dest
		for i, u := range s.Upstreams {
			up := structs.Upstream{DestinationType: structs.UpstreamDestTypeService, DestinationName: u, LocalBindPort: 9000 + i}
			if strings.Contains(u, "@") { // name@peer
				parts := strings.SplitN(u, "@", 2)
				up.DestinationName, up.DestinationPeer = parts[0], parts[1]
			}
			ns.Proxy.Upstreams = append(ns.Proxy.Upstreams, up)
		}
	}
	ns.EnterpriseMeta = *structs.DefaultEnterpriseMetaInDefaultPartition()
	return ns
}

func (c Check) healthCheck(node, peer string) *structs.HealthCheck {
	hc := &structs.HealthCheck{
		Node: node, CheckID: types.CheckID(c.ID), Name: c.Name, Status: c.Status, ServiceID: c.SvcID,
		Type: c.Type, Output: c.Output, PeerName: peer,
	}
	if hc.Name == "" {
		hc.Name = c.ID
	}
	hc.EnterpriseMeta = *structs.DefaultEnterpriseMetaInDefaultPartition()
	return hc
}

func (s Step) registerRequest() *structs.RegisterRequest {
	req := &structs.RegisterRequest{
		Datacenter: "dc1", ID: types.NodeID(s.NodeID), Node: s.Node, Address: s.Addr,
		SkipNodeUpdate: s.SkipNode, PeerName: s.Peer,
		Service: s.nodeService(),
	}
	if s.NodeMeta != "" {
		kv := strings.SplitN(s.NodeMeta, "=", 2)
		if len(kv) == 2 {
			req.NodeMeta = map[string]string{kv[0]: kv[1]}
		}
	}
	for _, c := range s.Checks {
		req.Checks = append(req.Checks, c.healthCheck(s.Node, s.Peer))
	}
	if p := strings.SplitN(s.Loc, "/", 2); len(p) == 2 {
		req.Locality = &structs.Locality{Region: p[0], Zone: p[1]}
	}
	if p := strings.SplitN(s.SvcLoc, "/", 2); len(p) == 2 && req.Service != nil {
		req.Service.Locality = &structs.Locality{Region: p[0], Zone: p[1]}
	}
	req.EnterpriseMeta = *structs.DefaultEnterpriseMetaInDefaultPartition()
	return req
}

func (s Step) deregisterRequest() *structs.DeregisterRequest {
	req := &structs.DeregisterRequest{Datacenter: "dc1", Node: s.Node, ServiceID: s.SvcID, CheckID: types.CheckID(s.CheckID), PeerName: s.Peer}
	req.EnterpriseMeta = *structs.DefaultEnterpriseMetaInDefaultPartition()
	return req
}

func (s Step) dirEntry(idx uint64) structs.DirEntry {
	d := structs.DirEntry{Key: s.Key, Flags: s.Flags, Session: s.Sess}
	if s.Val != "" {
		d.Value = []byte(s.Val)
	}
	d.ModifyIndex = idx
	d.EnterpriseMeta = *structs.DefaultEnterpriseMetaInDefaultPartition()
	return d
}

func (s Step) session() structs.Session {
	sess := structs.Session{ID: s.Sess, Name: s.Name, Node: s.Node, Behavior: structs.SessionBehavior(s.Behavior), TTL: s.TTL}
	if s.LockDelay != "" {
		sess.LockDelay, _ = time.ParseDuration(s.LockDelay)
	}
	if s.NoChecks {
		sess.NodeChecks = []string{}
	} else if len(s.NodeChks) > 0 {
		sess.NodeChecks = append([]string{}, s.NodeChks...)
	}
	for _, c := range s.SvcChks {
		sess.ServiceChecks = append(sess.ServiceChecks, structs.ServiceCheck{ID: c, Namespace: ""})
	}
	for _, c := range s.List {
		sess.Checks = append(sess.Checks, types.CheckID(c))
	}
	if sess.Behavior == "" {
		sess.Behavior = structs.SessionKeysRelease
	}
	sess.EnterpriseMeta = *structs.DefaultEnterpriseMetaInDefaultPartition()
	return sess
}

var kvVerbs = map[string]api.KVOp{
	"kv.set": api.KVSet, "kv.cas": api.KVCAS, "kv.delete": api.KVDelete, "kv.delete-cas": api.KVDeleteCAS,
	"kv.delete-tree": api.KVDeleteTree, "kv.lock": api.KVLock, "kv.unlock": api.KVUnlock,
	"kv.get": api.KVGet, "kv.get-tree": api.KVGetTree, "kv.get-or-empty": api.KVGetOrEmpty,
	"kv.check-index": api.KVCheckIndex, "kv.check-session": api.KVCheckSession, "kv.check-not-exists": api.KVCheckNotExists,
}

// IsKV reports whether the op is a KV verb (direct or in a txn).
func IsKV(op string) bool { _, ok := kvVerbs[op]; return ok }

// idxLookup gives the executor's view of current indexes for symbolic resolution.
type idxLookup interface {
	KeyIndex(key string) uint64
	NodeIndex(node, peer string) uint64
	ServiceIndex(node, id, peer string) uint64
	CheckIndex(node, id, peer string) uint64
}

// txnOps converts sub-steps into structs.TxnOps.
func (s Step) txnOps(lk idxLookup) structs.TxnOps {
	var ops structs.TxnOps
	for _, o := range s.Ops {
		switch {
		case IsKV(o.Op):
			ops = append(ops, &structs.TxnOp{KV: &structs.TxnKVOp{Verb: kvVerbs[o.Op], DirEnt: o.dirEntry(resolveIdx(o.Idx, lk.KeyIndex(o.Key)))}})
		case strings.HasPrefix(o.Op, "node."):
			n := structs.Node{ID: types.NodeID(o.NodeID), Node: o.Node, Address: o.Addr, Datacenter: "dc1", PeerName: o.Peer}
			n.ModifyIndex = resolveIdx(o.Idx, lk.NodeIndex(o.Node, o.Peer))
			ops = append(ops, &structs.TxnOp{Node: &structs.TxnNodeOp{Verb: api.NodeOp(strings.TrimPrefix(o.Op, "node.")), Node: n}})
		case strings.HasPrefix(o.Op, "service."):
			ns := o.nodeService()
			if ns == nil {
				ns = &structs.NodeService{ID: o.SvcID, PeerName: o.Peer}
				ns.EnterpriseMeta = *structs.DefaultEnterpriseMetaInDefaultPartition()
			}
			ns.ModifyIndex = resolveIdx(o.Idx, lk.ServiceIndex(o.Node, ns.ID, o.Peer))
			ops = append(ops, &structs.TxnOp{Service: &structs.TxnServiceOp{Verb: api.ServiceOp(strings.TrimPrefix(o.Op, "service.")), Node: o.Node, Service: *ns}})
		case strings.HasPrefix(o.Op, "check."):
			var c Check
			if len(o.Checks) > 0 {
				c = o.Checks[0]
			} else {
				c = Check{ID: o.CheckID}
			}
			hc := c.healthCheck(o.Node, o.Peer)
			hc.ModifyIndex = resolveIdx(o.Idx, lk.CheckIndex(o.Node, c.ID, o.Peer))
			ops = append(ops, &structs.TxnOp{Check: &structs.TxnCheckOp{Verb: api.CheckOp(strings.TrimPrefix(o.Op, "check.")), Check: *hc}})
		case o.Op == "session.delete":
			ops = append(ops, &structs.TxnOp{Session: &structs.TxnSessionOp{Verb: api.SessionDelete, Session: structs.Session{ID: o.Sess}}})
		}
	}
	return ops
}
