//go:build verif

package fsmworld

import (
	"context"
	"errors"
	"fmt"
	"sort"
	"strings"
	"sync"
	"testing/synctest"
	"time"

	"github.com/hashicorp/raft"

	"github.com/hashicorp/consul/agent/consul"
	"github.com/hashicorp/consul/agent/consul/stream"
	"github.com/hashicorp/consul/agent/structs"
	"github.com/hashicorp/consul/internal/verifsim/simkit"
)

// Outcome is what a client (or the simulator) observed for one step.
type Outcome struct {
	Appended []uint64 // indexes of log entries this step appended (usually 0 or 1)
	Resp     any      // leader-side response of the (last) appended entry
	Err      error    // error returned to the client (pre-apply rejection, raft error, FSM error)
	PreFalse bool     // KV lock answered false by the leader without appending (lock-delay)
	Rejected bool     // rejected by endpoint-level validation, nothing appended
}

// Cluster is the leader side of W1: the simulated replicated log plus the
// current leader's FSM and server shell.
type Cluster struct {
	Run    *simkit.Run
	GCTTL  time.Duration
	GCGran time.Duration

	L       *Replica
	Shell   *consul.Server
	Log     []Entry
	Results map[uint64]string // leader's canonical result per index
	next    uint64

	// last completed snapshot
	SnapBytes []byte
	SnapIndex uint64 // log position (count of entries covered)
	SnapCount int

	// OnCommit is called after the leader applied an entry (oracles hook in here).
	OnCommit func(e Entry, resp any)
	// Fatal is set when the system under test panicked inside apply.
	Fatal error

	mu        sync.Mutex
	inMain    bool
	curFault  string
	curGap    int
	curDesc   string
	curOut    *Outcome
	pending   []*pendingProposal
	Leaders   int
	lostReply bool
	StreamPub *stream.EventPublisher
	Failovers int

	// ShellCfg / RPCHook: server shell of another datacenter (C19); nil = dc1 defaults
	ShellCfg *consul.Config
	RPCHook  func(ctx context.Context, method string, args, reply interface{}) error
	// BgFault decides the fault for a proposal made by a background goroutine
	BgFault func(t structs.MessageType) (fault string, desc string)
	// FaultQueue: faults for the next proposals that carry none of their own
	FaultQueue []string
	adminReady bool
	// RaceHook commits somebody else's entry in front of a proposal that carries the fault "race"
	// (CommitForeign); false if it had nothing to commit
	RaceHook func(t structs.MessageType, buf []byte) bool
}

type pendingProposal struct {
	t     structs.MessageType
	buf   []byte
	reply chan proposeResult
}
type proposeResult struct {
	resp any
	err  error
}

var ErrLostReply = errors.New("simulated raft: leadership lost while committing (entry was committed, reply lost)")

func NewCluster(run *simkit.Run, gcTTL, gcGran time.Duration) *Cluster {
	return NewClusterPub(run, gcTTL, gcGran, nil)
}

// NewClusterPub: the leader's FSM is wired to a real event publisher (no failovers then: a
// publisher belongs to one server process).
func NewClusterPub(run *simkit.Run, gcTTL, gcGran time.Duration, pub *stream.EventPublisher) *Cluster {
	c := &Cluster{Run: run, GCTTL: gcTTL, GCGran: gcGran, Results: map[uint64]string{}, next: 5, StreamPub: pub}
	c.newLeader(nil, 0)
	return c
}

// NewClusterDC: a cluster whose leader shell belongs to datacenter cfg.Datacenter and whose
// server-to-server RPCs land in rpc.
func NewClusterDC(run *simkit.Run, gcTTL, gcGran time.Duration, cfg *consul.Config, rpc func(ctx context.Context, method string, args, reply interface{}) error) *Cluster {
	c := &Cluster{Run: run, GCTTL: gcTTL, GCGran: gcGran, Results: map[uint64]string{}, next: 5, ShellCfg: cfg, RPCHook: rpc}
	c.newLeader(nil, 0)
	return c
}

func (c *Cluster) newLeader(snap []byte, from int) {
	c.Leaders++
	if c.StreamPub != nil && c.Leaders > 1 {
		panic("a cluster wired to a real event publisher cannot fail over")
	}
	// (readers that ask for the leader's state - parked blocking queries re-evaluating - see the new store only
	// once it has caught up: a server does not serve reads while it replays its log)
	nl := NewReplicaPub(fmt.Sprintf("leader%d", c.Leaders), c.GCTTL, c.GCGran, c.StreamPub)
	if snap != nil {
		if err := nl.Restore(snap); err != nil {
			panic("leader restore from its own completed snapshot failed: " + err.Error())
		}
	}
	for _, e := range c.Log[from:] {
		if _, perr := nl.Apply(e); perr != nil {
			c.Fatal = perr
		}
	}
	c.L = nl
	c.L.GC.SetEnabled(true)
	c.Shell = consul.VerifNewShell(c.ShellCfg, c.L.FSM, c.L.GC, &consul.VerifHooks{RaftApply: c.hookRaftApply, IsLeader: func() bool { return true }, RPC: c.RPCHook})
	if err := consul.VerifInitializeSessionTimers(c.Shell); err != nil {
		panic(err)
	}
}

// hookRaftApply is where (*Server).raftApplyEncoded lands.
func (c *Cluster) hookRaftApply(t structs.MessageType, buf []byte) (any, error) {
	c.mu.Lock()
	if c.inMain {
		c.mu.Unlock()
		return c.propose(t, buf)
	}
	// called from a timer goroutine (session TTL expiry): park until the
	// scheduler processes pending proposals in a deterministic order
	p := &pendingProposal{t: t, buf: append([]byte{}, buf...), reply: make(chan proposeResult, 1)}
	c.pending = append(c.pending, p)
	c.mu.Unlock()
	r := <-p.reply
	return r.resp, r.err
}

func (c *Cluster) propose(t structs.MessageType, buf []byte) (any, error) {
	fault, gap, desc := c.curFault, c.curGap, c.curDesc
	c.curFault, c.curGap = "", 0
	if fault == "" && len(c.FaultQueue) > 0 {
		// faults for the applies a leader routine makes on its own (one per apply, in order)
		fault, c.FaultQueue = c.FaultQueue[0], c.FaultQueue[1:]
	}
	if fault == "not-leader" {
		c.Run.Hit("fault.propose-not-leader")
		return nil, raft.ErrNotLeader
	}
	if fault == "race" {
		// somebody else's entry is committed between the moment the proposer read the state and its own entry
		if c.RaceHook != nil && c.RaceHook(t, buf) {
			c.Run.Hit("fault.propose-raced")
		}
	}
	idx := c.next + uint64(gap)
	c.next = idx + 1
	e := Entry{Index: idx, Data: append([]byte{}, buf...), Desc: desc}
	c.Log = append(c.Log, e)
	resp, perr := c.L.Apply(e)
	if perr != nil {
		c.Fatal = perr
		return nil, perr
	}
	c.Results[idx] = CanonResult(resp)
	if _, isErr := resp.(error); isErr {
		c.Run.Hit("apply.err." + opOfDesc(desc))
	} else {
		c.Run.Hit("apply.ok." + opOfDesc(desc))
	}
	if c.curOut != nil {
		c.curOut.Appended = append(c.curOut.Appended, idx)
		c.curOut.Resp = resp
	}
	if !strings.HasPrefix(desc, "ae:") && !strings.HasPrefix(desc, "import:") { // the agent walks its tables in map order: C16 logs its calls per sync, sorted
		c.Run.Eventf("commit %d type=%d %s -> %s", idx, t, desc, simkit.Trunc(c.Results[idx], 200))
	}
	if c.OnCommit != nil {
		c.OnCommit(e, resp)
	}
	if fault == "lost-reply" {
		c.Run.Hit("fault.propose-lost-reply")
		c.lostReply = true
		return nil, ErrLostReply
	}
	if err, ok := resp.(error); ok {
		return nil, err
	}
	return resp, nil
}

// CommitForeign appends and applies, right now, an entry that somebody else proposed (a racing
// routine of the same leader, the leftover of a deposed one).
func (c *Cluster) CommitForeign(t structs.MessageType, msg any, desc string) any {
	buf, err := structs.Encode(t, msg)
	if err != nil {
		panic(err)
	}
	idx := c.next
	c.next++
	e := Entry{Index: idx, Data: buf, Desc: desc}
	c.Log = append(c.Log, e)
	resp, perr := c.L.Apply(e)
	if perr != nil {
		c.Fatal = perr
		return nil
	}
	c.Results[idx] = CanonResult(resp)
	c.Run.Eventf("commit %d type=%d %s -> %s", idx, t, desc, simkit.Trunc(c.Results[idx], 200))
	if c.OnCommit != nil {
		c.OnCommit(e, resp)
	}
	return resp
}

// DrainBackground processes proposals parked by timer goroutines and tombstone
// GC expirations, until quiescence.
func (c *Cluster) DrainBackground() {
	for round := 0; round < 50; round++ {
		synctest.Wait()
		progressed := false
		// tombstone GC: the leader loop reads ExpireCh and proposes a reap
		for {
			select {
			case idx := <-c.L.GC.ExpireCh():
				c.Run.Hit("probe.tombstone-gc-expired")
				c.main(func() {
					c.curDesc = fmt.Sprintf("reap(gc)<=%d", idx)
					consul.VerifReapTombstones(c.Shell, idx)
				})
				progressed = true
				continue
			default:
			}
			break
		}
		c.mu.Lock()
		ps := c.pending
		c.pending = nil
		c.mu.Unlock()
		sort.SliceStable(ps, func(i, j int) bool { return string(ps[i].buf) < string(ps[j].buf) })
		for _, p := range ps {
			c.Run.Hit("probe.background-proposal")
			var res proposeResult
			c.main(func() {
				c.curDesc = "background(session-ttl)"
				if c.BgFault != nil {
					c.curFault, c.curDesc = c.BgFault(p.t)
				}
				res.resp, res.err = c.propose(p.t, p.buf)
			})
			p.reply <- res
			progressed = true
		}
		if !progressed {
			return
		}
	}
}

// HasPending: a background goroutine is parked in a Raft apply.
func (c *Cluster) HasPending() bool {
	c.mu.Lock()
	defer c.mu.Unlock()
	return len(c.pending) > 0
}

// FailPending answers every parked proposal with a shutdown error.
func (c *Cluster) FailPending() {
	c.mu.Lock()
	ps := c.pending
	c.pending = nil
	c.mu.Unlock()
	for _, p := range ps {
		p.reply <- proposeResult{nil, raft.ErrRaftShutdown}
	}
}

func (c *Cluster) ClearLostReply() { c.lostReply = false }

// TakeLostReply reports (and forgets) that a proposal was committed with its reply lost,
// which in Raft means this server lost leadership while committing.
func (c *Cluster) TakeLostReply() bool {
	l := c.lostReply
	c.lostReply = false
	return l
}

// Failover replaces the leader: another replica with the same log takes over.
func (c *Cluster) Failover() {
	c.main(func() { c.failover() })
	c.DrainBackground()
}

// ApplyRaw proposes a request built by the caller (an RPC endpoint stand-in); fault as for a
// client command. No failover follows a lost reply.
func (c *Cluster) ApplyRaw(t structs.MessageType, msg any, desc, fault string) (resp any, err error) {
	c.main(func() {
		c.curFault, c.curGap, c.curDesc = fault, 0, desc
		resp, err = consul.VerifRaftApply(c.Shell, t, msg)
	})
	c.lostReply = false
	return resp, err
}

// DoNoDrain runs a client command without waiting for background work (usable from a
// goroutine other than the scheduler's).
func (c *Cluster) DoNoDrain(s Step) (out Outcome) {
	c.curOut = &out
	defer func() { c.curOut = nil }()
	c.main(func() { c.do(s, &out) })
	return out
}

// DoInside runs a client command from inside Main (from a hook that what Main runs has called).
func (c *Cluster) DoInside(s Step) (out Outcome) {
	prev := c.curOut
	c.curOut = &out
	c.mu.Lock()
	was := c.inMain
	c.inMain = true
	c.mu.Unlock()
	defer func() {
		c.curOut = prev
		c.mu.Lock()
		c.inMain = was
		c.mu.Unlock()
	}()
	c.do(s, &out)
	return out
}

// Main runs f as the scheduler (Raft applies made inside go straight to the log).
func (c *Cluster) Main(f func()) { c.main(f) }

func (c *Cluster) main(f func()) {
	c.mu.Lock()
	c.inMain = true
	c.mu.Unlock()
	defer func() {
		c.mu.Lock()
		c.inMain = false
		c.mu.Unlock()
	}()
	f()
}

// Close stops timers so the bubble can end.
func (c *Cluster) Close() {
	consul.VerifClearAllSessionTimers(c.Shell)
	c.L.GC.SetEnabled(false)
	// release any parked background proposals
	c.mu.Lock()
	ps := c.pending
	c.pending = nil
	c.mu.Unlock()
	for _, p := range ps {
		p.reply <- proposeResult{nil, raft.ErrRaftShutdown}
	}
}

// ---------------------------------------------------------------------------
// idxLookup against the leader's store

func (c *Cluster) KeyIndex(key string) uint64 {
	_, e, _ := c.L.State().KVSGet(nil, key, nil)
	if e == nil {
		return 0
	}
	return e.ModifyIndex
}
func (c *Cluster) NodeIndex(node, peer string) uint64 {
	_, n, _ := c.L.State().GetNode(node, nil, peer)
	if n == nil {
		return 0
	}
	return n.ModifyIndex
}
func (c *Cluster) ServiceIndex(node, id, peer string) uint64 {
	_, s, _ := c.L.State().NodeService(nil, node, id, nil, peer)
	if s == nil {
		return 0
	}
	return s.ModifyIndex
}
func (c *Cluster) CheckIndex(node, id string, peer string) uint64 {
	_, ch, _ := c.L.State().NodeCheck(node, typesCheckID(id), nil, peer)
	if ch == nil {
		return 0
	}
	return ch.ModifyIndex
}

// ---------------------------------------------------------------------------

// Do executes one step on the leader side.
func (c *Cluster) Do(s Step) (out Outcome) {
	c.curOut = &out
	defer func() { c.curOut = nil }()
	c.main(func() { c.do(s, &out) })
	if c.Fatal == nil {
		c.DrainBackground()
	}
	if c.lostReply && c.Fatal == nil {
		// a committed entry whose reply was lost means leadership moved: another
		// replica (same log, its own clock-local state) takes over
		c.lostReply = false
		c.main(func() { c.failover() })
		c.DrainBackground()
	}
	return out
}

func (c *Cluster) apply(t structs.MessageType, msg any, s Step, out *Outcome) {
	c.curFault, c.curGap, c.curDesc = s.Fault, s.Gap, s.Short()
	resp, err := consul.VerifRaftApply(c.Shell, t, msg)
	out.Err = err
	if err == nil {
		out.Resp = resp
	}
}

func (c *Cluster) do(s Step, out *Outcome) {
	switch {
	case s.Op == "register":
		req := s.registerRequest()
		if err := consul.VerifRegisterPreApply(req); err != nil {
			out.Rejected, out.Err = true, err
			return
		}
		if req.Address == "" && !req.SkipNodeUpdate {
			out.Rejected, out.Err = true, errors.New("Must provide address if SkipNodeUpdate is not set")
			return
		}
		c.apply(structs.RegisterRequestType, req, s, out)
	case s.Op == "deregister":
		c.apply(structs.DeregisterRequestType, s.deregisterRequest(), s, out)
	case IsKV(s.Op):
		d := s.dirEntry(resolveIdx(s.Idx, c.KeyIndex(s.Key)))
		op := kvVerbs[s.Op]
		ok, err := consul.VerifKVSPreApply(c.Shell, op, &d)
		if err != nil {
			out.Rejected, out.Err = true, err
			return
		}
		if !ok {
			c.Run.Hit("probe.lock-delay-rejected")
			out.PreFalse = true
			return
		}
		c.apply(structs.KVSRequestType, &structs.KVSRequest{Datacenter: "dc1", Op: op, DirEnt: d}, s, out)
	case s.Op == "session.create":
		sess := s.session()
		if sess.Node == "" {
			out.Rejected, out.Err = true, errors.New("Must provide Node")
			return
		}
		req := &structs.SessionRequest{Datacenter: "dc1", Op: structs.SessionCreate, Session: sess}
		c.apply(structs.SessionRequestType, req, s, out)
		if out.Err == nil && sess.TTL != "" {
			consul.VerifResetSessionTimer(c.Shell, &req.Session)
		}
	case s.Op == "session.destroy":
		req := &structs.SessionRequest{Datacenter: "dc1", Op: structs.SessionDestroy, Session: structs.Session{ID: s.Sess}}
		req.Session.EnterpriseMeta = *structs.DefaultEnterpriseMetaInDefaultPartition()
		// endpoint: destroying an unknown session is a no-op that is not appended
		if _, existing, _ := c.L.State().SessionGet(nil, s.Sess, nil); existing == nil {
			out.Rejected = true
			return
		}
		c.apply(structs.SessionRequestType, req, s, out)
		if out.Err == nil {
			consul.VerifClearSessionTimer(c.Shell, s.Sess)
		}
	case s.Op == "session.renew":
		// Session.Renew: resets the leader-local timer, nothing is appended
		if _, existing, _ := c.L.State().SessionGet(nil, s.Sess, nil); existing != nil && existing.TTL != "" {
			consul.VerifResetSessionTimer(c.Shell, existing)
			c.Run.Hit("probe.session-renew")
		}
	case s.Op == "txn":
		ops := s.txnOps(c)
		if errs := consul.VerifTxnPreCheck(c.Shell, ops); len(errs) > 0 {
			out.Rejected = true
			out.Resp = structs.TxnResponse{Errors: errs}
			return
		}
		c.apply(structs.TxnRequestType, &structs.TxnRequest{Datacenter: "dc1", Ops: ops}, s, out)
	case s.Op == "reap":
		var ri uint64
		switch s.Idx {
		case "all":
			ri = c.next + 10
		case "none":
			ri = 1
		case "half":
			if len(c.Log) > 0 {
				ri = c.Log[len(c.Log)/2].Index
			}
		default:
			ri = resolveIdx(s.Idx, 0)
		}
		c.apply(structs.TombstoneRequestType, &structs.TombstoneRequest{Datacenter: "dc1", Op: structs.TombstoneReap, ReapIndex: ri}, s, out)
	case s.Op == "advance":
		d, err := time.ParseDuration(s.Dur)
		if err != nil || d <= 0 {
			return
		}
		c.mu.Lock()
		c.inMain = false // timers fire while the scheduler sleeps
		c.mu.Unlock()
		time.Sleep(d)
		c.Run.AdvanceSim(d)
		c.Run.Eventf("advance %s", d)
	case s.Op == "leader.snapshot":
		b, err := c.L.SnapshotBytes()
		if err != nil {
			panic("leader snapshot failed: " + err.Error())
		}
		c.SnapBytes, c.SnapIndex = b, uint64(len(c.Log))
		c.SnapCount++
		c.Run.Hit("probe.leader-snapshot")
		c.Run.Eventf("leader snapshot at log position %d (%d bytes)", c.SnapIndex, len(b))
	case s.Op == "leader.restart":
		c.failover()
	case s.Op == "leader.install":
		// install-snapshot on the live server: FSM.Restore swaps the store (same content here:
		// the snapshot is the server's own current state) and refreshes all stream topics
		b, err := c.L.SnapshotBytes()
		if err != nil {
			panic("snapshot failed: " + err.Error())
		}
		if s.Flag && c.SnapBytes != nil {
			// operator restore: an OLDER snapshot (taken by an earlier leader.snapshot step) replaces the state
			b = c.SnapBytes
			c.Run.Hit("probe.install-older-snapshot")
		}
		if err := c.L.Restore(b); err != nil {
			panic("restore of own snapshot failed: " + err.Error())
		}
		c.Run.Hit("probe.install-snapshot")
		c.Run.Eventf("install-snapshot at log position %d", len(c.Log))
	default:
		if !c.doExt(s, out) {
			panic("unknown step op " + s.Op)
		}
	}
}

// failover: the current leader crashes (everything in memory is dropped); a
// replica built from the last completed snapshot plus the log suffix leads.
func (c *Cluster) failover() {
	consul.VerifClearAllSessionTimers(c.Shell)
	c.L.GC.SetEnabled(false)
	c.L.State().Abandon()
	c.newLeader(c.SnapBytes, int(c.SnapIndex))
	c.Run.Hit("probe.leader-restart")
	if c.SnapBytes != nil {
		c.Run.Hit("probe.leader-restart-from-snapshot")
	}
	c.Failovers++
	c.Run.Eventf("leader failover (snapshot@%d + %d entries)", c.SnapIndex, len(c.Log)-int(c.SnapIndex))
}

func describeResp(v any) string {
	return strings.TrimSpace(simkit.Trunc(CanonResult(v), 300))
}

const aclAdminSecret = "5ec4e700-0000-4000-8000-0000000000ad"

// PolicyRMW updates a stored policy the way `consul acl policy update` does: read the policy, change it,
// send the whole object back to the real ACL.PolicySet endpoint of the leader. False if there is nothing
// to update (the caller then writes the policy as a new one). The shell must resolve tokens
// (consul.VerifEnableACLs); the operator token is created on first use.
func (c *Cluster) PolicyRMW(st Step) bool {
	_, cur, err := c.L.State().ACLPolicyGetByID(nil, st.ID, nil)
	if err != nil || cur == nil {
		return false
	}
	if !c.adminReady {
		// an operator token that may write ACLs (its policy says so explicitly)
		c.Do(Step{Op: "acl.policy.set", ID: PolicyUUID(99), Name: "verif-admin", Text: `acl = "write"`})
		c.Do(Step{Op: "acl.token.set", ID: TokenUUID(99), Text: aclAdminSecret, List: []string{PolicyUUID(99)}})
		c.adminReady = true
	}
	pol := *cur // Hash, indexes and all, as a client that read it would hold it
	pol.Rules, pol.Name, pol.Datacenters = st.Text, st.Name, st.List
	args := &structs.ACLPolicySetRequest{Datacenter: "dc1", Policy: pol, WriteRequest: structs.WriteRequest{Token: aclAdminSecret}}
	var reply structs.ACLPolicy
	var rerr error
	c.Main(func() { rerr = consul.VerifACLPolicySet(c.Shell, args, &reply) })
	c.Run.Eventf("acl.policy.set through the endpoint (read-modify-write) %s -> err=%v", st.Name, rerr != nil)
	c.Run.Hit("probe.policy-read-modify-write")
	return true
}
