//go:build verif

package fsmworld

import (
	"encoding/json"
	"fmt"
	"math/rand/v2"
	"sort"
	"strings"
	"testing"
	"time"

	"github.com/hashicorp/consul/agent/consul/discoverychain"
	"github.com/hashicorp/consul/agent/structs"
	"github.com/hashicorp/consul/internal/verifsim/simkit"
)

// C15: discovery-chain compilation is closed, terminating and deterministic,
// and the write-time graph validation agrees with the compiler.
//
// The compiler is a pure function; what the simulation contributes is (a) the
// stored entry SETS reached by histories of accepted and rejected writes, with
// the same writes committed in several interleavings, (b) the replica / restore
// comparison of compiled chains, (c) repetition against Go map order, and (d) a
// watchdog for non-termination.
type C15 struct{}

func (C15) Decode(raw []byte) (simkit.Plan, error) { return DecodePlan(raw) }

func (g *Gen) chainEntryJSON() string {
	svc := func() string { return g.pick(g.U.Services) }
	switch simkit.Weighted(g.R, []int{18, 8, 30, 20, 20, 4}) {
	case 0:
		e := M{"Kind": "service-defaults", "Name": svc(), "Protocol": g.pick([]string{"tcp", "http", "http", "http2", "grpc"})}
		if simkit.Chance(g.R, 25) {
			delete(e, "Protocol") // an entry without a protocol: the service is tcp whatever proxy-defaults says
		}
		if simkit.Chance(g.R, 12) {
			e["ExternalSNI"] = "ext.example.com" // external services may not have subsets, redirects or failover
		}
		return mustJSON(e)
	case 1:
		return mustJSON(M{"Kind": "proxy-defaults", "Name": "global", "Config": M{"protocol": g.pick([]string{"tcp", "http", "http"})}})
	case 2:
		e := M{"Kind": "service-resolver", "Name": svc()}
		switch g.R.IntN(7) {
		case 0:
			e["Redirect"] = M{"Service": svc()}
		case 1:
			e["Subsets"] = M{"v1": M{"Filter": "Service.Meta.version == v1"}, "v2": M{"Filter": "Service.Meta.version == v2"}}
			e["DefaultSubset"] = g.pick([]string{"v1", "v2", "v3"})
		case 2:
			e["Failover"] = M{"*": M{"Service": svc()}}
		case 3:
			e["Failover"] = M{"*": M{"Datacenters": []string{"dc2", "dc3"}}}
		case 4:
			e["Subsets"] = M{"v1": M{"OnlyPassing": true}}
			e["Redirect"] = M{"Service": svc(), "ServiceSubset": g.pick([]string{"v1", ""})}
		case 5:
			e["Redirect"] = M{"Datacenter": "dc2"}
		case 6:
			e["Subsets"] = M{"v1": M{}}
			e["Failover"] = M{"v1": M{"Service": svc(), "ServiceSubset": g.pick([]string{"v1", ""})}}
		}
		return mustJSON(e)
	case 3:
		a := 10 + g.R.IntN(80)
		splits := []M{{"Weight": a, "Service": svc()}, {"Weight": 100 - a, "Service": svc()}}
		if simkit.Chance(g.R, 30) {
			splits[0]["ServiceSubset"] = "v1"
		}
		if simkit.Chance(g.R, 20) {
			splits = []M{{"Weight": 100, "Service": svc()}}
		}
		return mustJSON(M{"Kind": "service-splitter", "Name": svc(), "Splits": splits})
	case 4:
		routes := []M{{"Match": M{"HTTP": M{"PathPrefix": "/" + g.pick([]string{"admin", "api", "v1"})}}, "Destination": M{"Service": svc()}}}
		if simkit.Chance(g.R, 50) {
			routes = append(routes, M{"Match": M{"HTTP": M{"PathExact": "/x"}}, "Destination": M{"Service": svc(), "ServiceSubset": g.pick([]string{"v1", ""})}})
		}
		return mustJSON(M{"Kind": "service-router", "Name": svc(), "Routes": routes})
	default:
		return mustJSON(M{"Kind": "mesh", "TransparentProxy": M{"MeshDestinationsOnly": false}})
	}
}

func (C15) Generate(rng *rand.Rand, tier string, runIdx uint64) simkit.Plan {
	u := DefaultUniverse()
	g := NewGen(rng, u, Weights{})
	p := &Plan{Cfg: Cfg{Extra: map[string]string{}}}
	for i := 0; i < 2+rng.IntN(2); i++ {
		p.Cfg.Perm = append(p.Cfg.Perm, int(rng.Uint32()>>1))
	}
	n := 3 + rng.IntN(22)
	caseVariants := simkit.Chance(rng, 30)
	// most runs speak an http-like protocol so routers and splitters are admissible
	if simkit.Chance(rng, 70) {
		p.Steps = append(p.Steps, Step{Op: "ce.upsert", Text: mustJSON(M{"Kind": "proxy-defaults", "Name": "global", "Config": M{"protocol": "http"}})})
	}
	for len(p.Steps) < n {
		op := []string{"ce.upsert", "ce.upsert-cas", "ce.delete", "ce.delete-cas", "ce.upsert-status-cas"}[simkit.Weighted(rng, []int{60, 10, 20, 5, 7})]
		s := Step{Op: op, Text: g.chainEntryJSON()}
		if caseVariants && simkit.Chance(rng, 15) {
			// the table keys entries by lower-cased name: "Web" replaces "web"
			var m M
			json.Unmarshal([]byte(s.Text), &m)
			if n, _ := m["Name"].(string); n != "" && m["Kind"] != "proxy-defaults" && m["Kind"] != "mesh" {
				m["Name"] = strings.ToUpper(n[:1]) + n[1:]
				s.Text = mustJSON(m)
			}
		}
		if strings.HasSuffix(op, "-cas") {
			s.Idx = g.symIdx()
		}
		p.Steps = append(p.Steps, s)
	}
	return p
}

func (w C15) Execute(t *testing.T, pl simkit.Plan, r *simkit.Run) (v *simkit.Violation) {
	p := pl.(*Plan)
	type obs struct {
		allAccepted bool
		chains      map[string]string
		order       []int
	}
	// orders are comparable when they end in the same stored entry set (the chains map carries it under "!entries")
	var first *obs
	for pi, seed := range append([]int{0}, p.Cfg.Perm...) {
		var o obs
		if err := simkit.Bubble(t, func() {
			var chains map[string]string
			var all bool
			chains, all, v = w.runOrder(p, seed, r)
			o = obs{allAccepted: all, chains: chains, order: c15Order(p.Steps, seed)}
		}); err != nil {
			return &simkit.Violation{Class: "harness-panic", Invariant: "no-escaped-panic", Detail: err.Error()}
		}
		if v != nil {
			return v
		}
		if first == nil {
			first = &o
			continue
		}
		if first.chains["!entries"] != o.chains["!entries"] {
			r.Hit("probe.order-ends-in-different-entry-set")
			continue // writes to the same entry do not commute, and a rejected write depends on what was stored before it
		}
		r.Hit("probe.order-compared")
		for _, svc := range simkit.SortedKeys(first.chains) {
			if first.chains[svc] != o.chains[svc] {
				return &simkit.Violation{Property: "C15", Class: "chain-nondeterministic", Invariant: "same-entry-set-same-chain", Step: pi, Culprit: svc,
					Detail: fmt.Sprintf("the same accepted writes in order %v give a different compiled chain for %q than in order %v:\n%s", o.order, svc, first.order, simkit.FirstDiff(first.chains[svc], o.chains[svc]))}
			}
		}
	}
	r.Nontrivial = len(p.Steps) >= 3
	return nil
}

func c15Order(steps []Step, seed int) []int {
	n := len(steps)
	out := make([]int, n)
	for i := range out {
		out[i] = i
	}
	if seed != 0 {
		rng := simkit.NewRNG(uint64(seed))
		rng.Shuffle(n, func(i, j int) { out[i], out[j] = out[j], out[i] })
	}
	return out
}

var c15Contexts = []discoverychain.CompileRequest{
	{EvaluateInDatacenter: "dc1"},
	{EvaluateInDatacenter: "dc2"},
	{EvaluateInDatacenter: "dc1", OverrideMeshGateway: structs.MeshGatewayConfig{Mode: structs.MeshGatewayModeLocal}},
	{EvaluateInDatacenter: "dc1", OverrideProtocol: "http", OverrideConnectTimeout: 33 * time.Second},
}

// compileAll compiles the chain of every service in every context, 8 times each, and validates the graphs.
func compileAll(rep *Replica, services []string, r *simkit.Run) (map[string]string, *simkit.Violation) {
	out := map[string]string{}
	st := rep.State()
	for _, svc := range services {
		for ci, ctx := range c15Contexts {
			req := ctx
			req.ServiceName = svc
			req.EvaluateInNamespace, req.EvaluateInPartition = "default", "default"
			req.EvaluateInTrustDomain = "11111111-2222-3333-4444-555555555555.consul"
			var firstCanon string
			for rep := 0; rep < 8; rep++ {
				type res struct {
					chain *structs.CompiledDiscoveryChain
					err   error
				}
				done := make(chan res, 1)
				go func() {
					_, chain, _, err := st.ServiceDiscoveryChain(nil, svc, nil, req)
					done <- res{chain, err}
				}()
				var got res
				select {
				case got = <-done:
				case <-time.After(30 * time.Second): // fake clock: fires only if the compile goroutine is blocked; a spinning compile is caught by the process watchdog
					return nil, &simkit.Violation{Property: "C15", Class: "chain-nonterminating", Invariant: "compile-terminates", Culprit: svc, Detail: "compile did not return"}
				}
				r.Hit("probe.chain-compiled")
				if got.err != nil {
					if rep == 0 {
						firstCanon = "err"
					} else if firstCanon != "err" {
						return nil, &simkit.Violation{Property: "C15", Class: "chain-nondeterministic", Invariant: "repeated-compilation-identical", Culprit: svc, Detail: fmt.Sprintf("compile of %s succeeded, then failed: %v", svc, got.err)}
					}
					if strings.Contains(got.err.Error(), "no cluster ca config") {
						continue
					}
					// a STORED set must always compile (write-time validation guarantees it)
					return nil, &simkit.Violation{Property: "C15", Class: "validation-disagrees", Invariant: "stored-set-compiles", Culprit: svc,
						Detail: fmt.Sprintf("the stored entries were accepted by write-time validation, but compiling the chain of %q (context %d) fails: %v", svc, ci, got.err)}
				}
				canon := simkit.Canon(got.chain)
				if rep == 0 {
					firstCanon = canon
					if v := validateChain(got.chain); v != "" {
						return nil, &simkit.Violation{Property: "C15", Class: "chain-dangling", Invariant: "graph-is-closed", Culprit: svc, Detail: fmt.Sprintf("chain of %q (context %d): %s\n%s", svc, ci, v, simkit.Trunc(canon, 2500))}
					}
				} else if canon != firstCanon {
					return nil, &simkit.Violation{Property: "C15", Class: "chain-nondeterministic", Invariant: "repeated-compilation-identical", Culprit: svc,
						Detail: fmt.Sprintf("two compilations of the chain of %q over the same stored entries differ:\n%s", svc, simkit.FirstDiff(firstCanon, canon))}
				}
			}
			out[fmt.Sprintf("%s#%d", svc, ci)] = firstCanon
		}
	}
	return out, nil
}

// validateChain: every referenced node/target exists, every path from the start ends at a resolver with a target.
func validateChain(c *structs.CompiledDiscoveryChain) string {
	if c == nil {
		return "nil chain"
	}
	if c.Nodes[c.StartNode] == nil {
		return fmt.Sprintf("start node %q does not exist", c.StartNode)
	}
	state := map[string]int{} // 1 = on stack, 2 = done
	var walk func(id string) string
	walk = func(id string) string {
		n := c.Nodes[id]
		if n == nil {
			return fmt.Sprintf("referenced node %q does not exist", id)
		}
		if state[id] == 1 {
			return fmt.Sprintf("cycle through node %q", id)
		}
		if state[id] == 2 {
			return ""
		}
		state[id] = 1
		defer func() { state[id] = 2 }()
		switch n.Type {
		case structs.DiscoveryGraphNodeTypeRouter:
			if len(n.Routes) == 0 {
				return fmt.Sprintf("router %q has no routes", id)
			}
			for _, rt := range n.Routes {
				if e := walk(rt.NextNode); e != "" {
					return e
				}
			}
		case structs.DiscoveryGraphNodeTypeSplitter:
			if len(n.Splits) == 0 {
				return fmt.Sprintf("splitter %q has no splits", id)
			}
			for _, sp := range n.Splits {
				if e := walk(sp.NextNode); e != "" {
					return e
				}
			}
		case structs.DiscoveryGraphNodeTypeResolver:
			if n.Resolver == nil || n.Resolver.Target == "" {
				return fmt.Sprintf("resolver %q has no target", id)
			}
			if c.Targets[n.Resolver.Target] == nil {
				return fmt.Sprintf("resolver %q points at missing target %q", id, n.Resolver.Target)
			}
			if f := n.Resolver.Failover; f != nil {
				for _, t := range f.Targets {
					if c.Targets[t] == nil {
						return fmt.Sprintf("failover of %q points at missing target %q", id, t)
					}
				}
			}
		default:
			return fmt.Sprintf("node %q has unknown type %q", id, n.Type)
		}
		return ""
	}
	if e := walk(c.StartNode); e != "" {
		return e
	}
	for id := range c.Nodes {
		if state[id] == 0 {
			return fmt.Sprintf("node %q is unreachable from the start node (not pruned)", id)
		}
	}
	return ""
}

func (C15) runOrder(p *Plan, seed int, r *simkit.Run) (map[string]string, bool, *simkit.Violation) {
	c := NewCluster(r, 15*time.Minute, 30*time.Second)
	defer c.Close()
	c.Do(Step{Op: "ca.set-config", Text: "72h", Idx: "zero"})
	services := DefaultUniverse().Services
	allAccepted := true
	mk := func(i int, class, inv, culprit, detail string) *simkit.Violation {
		return &simkit.Violation{Property: "C15", Class: class, Invariant: inv, Step: i, Culprit: culprit, Detail: detail}
	}
	for _, idx := range c15Order(p.Steps, seed) {
		s := p.Steps[idx]
		r.Steps++
		before := c.L.Dump()
		nlog := len(c.Log)
		out := c.Do(s)
		if c.Fatal != nil {
			return nil, false, mk(idx, "panic", "apply-does-not-panic", s.Op, c.Fatal.Error())
		}
		if out.Rejected || len(c.Log) == nlog {
			allAccepted = false
			continue
		}
		_, rejected := c.Results[c.Log[nlog].Index], false
		if e, isErr := out.Resp.(error); isErr || out.Err != nil {
			_ = e
			rejected = true
		}
		if b, isBool := out.Resp.(bool); isBool && !b {
			allAccepted = false // CAS mismatch
		}
		if rejected {
			allAccepted = false
			r.Hit("probe.write-rejected-by-graph-validation")
			if d := c.L.Dump().Diff(before, nil); d != "" {
				return nil, false, mk(idx, "validation-disagrees", "rejected-write-leaves-entries-unchanged", opOfDesc(s.Op),
					fmt.Sprintf("%s was rejected (%v) but state changed:\n%s", s.Short(), out.Err, d))
			}
			continue
		}
		r.Hit("probe.write-accepted")
		if _, v := compileAll(c.L, services, r); v != nil {
			v.Step = idx
			v.Detail = fmt.Sprintf("after accepted write %s %s: %s", s.Op, simkit.Trunc(s.Text, 300), v.Detail)
			return nil, false, v
		}
	}
	r.Sig(fmt.Sprintf("accepted=%v", allAccepted))
	// replica built from a snapshot of the final state compiles to the same chains
	chains, v := compileAll(c.L, services, r)
	if v != nil {
		return nil, false, v
	}
	_, entries, _ := c.L.State().ConfigEntries(nil, structs.WildcardEnterpriseMetaInDefaultPartition())
	var ents []string
	for _, e := range entries {
		ents = append(ents, simkit.Canon(e, "RaftIndex", "CreateIndex", "ModifyIndex", "Hash"))
	}
	sort.Strings(ents)
	defer func() {
		if chains != nil {
			chains["!entries"] = strings.Join(ents, "\n")
			r.Sig(chains["!entries"])
		}
	}()
	if b, err := c.L.SnapshotBytes(); err == nil {
		rep := NewReplica("restored", 15*time.Minute, 30*time.Second)
		if err := rep.Restore(b); err == nil {
			rc, v := compileAll(rep, services, r)
			if v != nil {
				return nil, false, v
			}
			for _, k := range simkit.SortedKeys(chains) {
				if chains[k] != rc[k] {
					return nil, false, mk(len(p.Steps), "chain-nondeterministic", "restored-replica-compiles-identically", k,
						fmt.Sprintf("chain %s differs on a replica restored from the snapshot:\n%s", k, simkit.FirstDiff(chains[k], rc[k])))
				}
			}
			r.Hit("probe.restored-replica-compared")
		}
		rep.GC.SetEnabled(false)
	}
	return chains, allAccepted, nil
}
