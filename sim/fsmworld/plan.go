//go:build verif

package fsmworld

import (
	"encoding/json"

	"github.com/hashicorp/consul/internal/verifsim/simkit"
)

// Cfg is the per-run configuration drawn by the generator (swarm variation).
type Cfg struct {
	GCTTL  string `json:"gc_ttl,omitempty"`
	GCGran string `json:"gc_granularity,omitempty"`
	// followers (C01/C02): clock offset and checkpoint cadence per audit replica
	Followers  []Follower        `json:"followers,omitempty"`
	Cut        int               `json:"cut,omitempty"`     // C02: -1 = enumerate every cut
	Overlap    int               `json:"overlap,omitempty"` // C02: entries applied between Snapshot() and Persist()
	Live       bool              `json:"live,omitempty"`    // C02: restore onto a live store holding another prefix
	SinkFail   int               `json:"sink_fail,omitempty"`
	ReadFail   int               `json:"read_fail,omitempty"`
	WatchLimit int               `json:"watch_limit,omitempty"`
	Perm       []int             `json:"perm,omitempty"`
	Extra      map[string]string `json:"extra,omitempty"`
}

type Follower struct {
	ClockOffset string `json:"clock_offset"` // forward sleep before the replica starts
	StepAdvance string `json:"step_advance"` // sleep between applies
	SnapEvery   int    `json:"snap_every"`   // snapshot+restore (restart) every n entries (0 = never)
	CheckEvery  int    `json:"check_every"`  // dump comparison cadence
	InstallAt   int    `json:"install_at"`   // receive the leader's snapshot while live at this log position (0 = never)
}

// Plan is the W1 plan: configuration plus steps.
type Plan struct {
	Cfg   Cfg    `json:"cfg"`
	Steps []Step `json:"steps"`
}

func (p *Plan) NumSteps() int { return len(p.Steps) }

func (p *Plan) Keep(keep []bool) simkit.Plan {
	q := &Plan{Cfg: p.Cfg}
	for i, s := range p.Steps {
		if keep[i] {
			q.Steps = append(q.Steps, s)
		}
	}
	return q
}

func (p *Plan) clone() *Plan {
	q := &Plan{Cfg: p.Cfg, Steps: append([]Step{}, p.Steps...)}
	return q
}

// Simplify: drop sub-ops of transactions, faults, index gaps, checks, extra fields.
func (p *Plan) Simplify() []simkit.Plan {
	var out []simkit.Plan
	for i, s := range p.Steps {
		if len(s.Ops) > 1 {
			for j := range s.Ops {
				q := p.clone()
				ns := s
				ns.Ops = append(append([]Step{}, s.Ops[:j]...), s.Ops[j+1:]...)
				q.Steps[i] = ns
				out = append(out, q)
			}
		}
		if s.Fault != "" {
			q := p.clone()
			q.Steps[i].Fault = ""
			out = append(out, q)
		}
		if s.Gap != 0 {
			q := p.clone()
			q.Steps[i].Gap = 0
			out = append(out, q)
		}
		if len(s.Checks) > 0 && s.Op == "register" {
			q := p.clone()
			q.Steps[i].Checks = s.Checks[:len(s.Checks)-1]
			out = append(out, q)
		}
		if len(s.Upstreams) > 0 {
			q := p.clone()
			q.Steps[i].Upstreams = s.Upstreams[:len(s.Upstreams)-1]
			out = append(out, q)
		}
		if len(s.Tags) > 0 {
			q := p.clone()
			q.Steps[i].Tags = nil
			out = append(out, q)
		}
		if s.NodeMeta != "" {
			q := p.clone()
			q.Steps[i].NodeMeta = ""
			out = append(out, q)
		}
	}
	if len(p.Cfg.Followers) > 1 {
		q := p.clone()
		q.Cfg.Followers = p.Cfg.Followers[:len(p.Cfg.Followers)-1]
		out = append(out, q)
	}
	return out
}

func DecodePlan(raw []byte) (simkit.Plan, error) {
	var p Plan
	if err := json.Unmarshal(raw, &p); err != nil {
		return nil, err
	}
	return &p, nil
}
