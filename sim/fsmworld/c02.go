//go:build verif

package fsmworld

import (
	"bytes"
	"fmt"
	"math/rand/v2"
	"regexp"
	"sort"
	"strings"
	"testing"
	"time"

	"github.com/hashicorp/raft"

	"github.com/hashicorp/consul-net-rpc/go-msgpack/codec"
	"github.com/hashicorp/consul/agent/structs"

	"github.com/hashicorp/consul/agent/consul/fsm"
	"github.com/hashicorp/consul/internal/verifsim/simkit"
)

// C02: restore(snapshot(apply(h[:k]))) followed by h[k:] is observationally
// equal to apply(h), for every cut k of a sampled history h.
//
// Per history: replica A applies h; at every cut k a snapshot is TAKEN
// (FSM.Snapshot) and persisted only after `overlap` further entries were
// applied (raft persists concurrently with applies); the bytes are restored
// into a fresh FSM (restart) or onto a live FSM holding another prefix
// (install-snapshot). Compared: the query battery right after restore, the
// table dump, the results of every later entry and the final state.
// Sink write faults must fail Persist; reader faults must fail Restore and
// leave the target untouched.
type C02 struct{}

func (C02) Decode(raw []byte) (simkit.Plan, error) { return DecodePlan(raw) }

func (C02) Generate(rng *rand.Rand, tier string, runIdx uint64) simkit.Plan {
	u := DefaultUniverse()
	w := FullWeights(rng)
	w.Snapshot, w.Restart, w.Fault = 0, 0, 0
	w.NoGatewayWildcard = true // see Gen.wild: exercised under C07 with its known finding
	g := NewGen(rng, u, w)
	n := 8 + rng.IntN(40)
	p := &Plan{Cfg: Cfg{GCTTL: "15m", GCGran: "30s", Cut: -1, Overlap: simkit.Pick(rng, []int{0, 0, 1, 5}), Live: simkit.Chance(rng, 40)}}
	p.Cfg.Extra = map[string]string{"dualstack": simkit.Pick(rng, []string{"off", "off", "on"}),
		"clock": simkit.Pick(rng, []string{"0s", "1h", "8760h"})}
	p.Steps = append(p.Steps, Prelude(rng, g)...)
	for len(p.Steps) < n {
		if simkit.Chance(rng, 3) {
			p.Steps = append(p.Steps, g.PeerSecretRotation()...)
			continue
		}
		p.Steps = append(p.Steps, g.Next())
	}
	return p
}

// Prelude optionally establishes prerequisites so that dependent commands are
// accepted often enough (nodes, intention format marker, a peering, an auth method).
func Prelude(rng *rand.Rand, g *Gen) []Step {
	var out []Step
	if simkit.Chance(rng, 60) {
		out = append(out, Step{Op: "register", Node: "n1", NodeID: NodeUUID(1), Addr: "10.0.0.1", Checks: []Check{{ID: "serfHealth", Status: "passing"}}})
	}
	if simkit.Chance(rng, 50) {
		out = append(out, Step{Op: "sysmeta.set", Key: "intention-format", Val: "config-entry"})
	}
	if simkit.Chance(rng, 70) {
		out = append(out, Step{Op: "ca.set-config", Text: "72h", Idx: "zero"})
	}
	if simkit.Chance(rng, 40) {
		out = append(out, Step{Op: "peer.write", ID: PeerUUID(1), Name: "peerA", N: 1, Text: PeerUUID(11), M: 1})
	}
	if simkit.Chance(rng, 30) {
		out = append(out, Step{Op: "acl.method.set", Name: "jwt1", Text: "a"})
	}
	if simkit.Chance(rng, 30) {
		out = append(out, Step{Op: "sysmeta.set", Key: "virtual-ips", Val: "true"})
		if simkit.Chance(rng, 60) {
			out = append(out, Step{Op: "sysmeta.set", Key: "virtual-ips-term-gateway", Val: "true"})
		}
	}
	return out
}

// exemptions of the raw-table comparison, each with its argument (DESIGN.md C02)
func c02NormalizeDump(d Dump) Dump {
	out := Dump{}
	for t, rows := range d {
		if t == "usage" {
			// usage rows: the Index column is re-derived on restore by design (usage.go: "This
			// will happen when restoring from a snapshot, just take the max index of the tables we
			// are tracking"), and zero-count rows only exist on a store that once counted them.
			var nr []string
			for _, r := range rows {
				if strings.HasSuffix(r, ",Count:0}") {
					continue
				}
				if i := strings.Index(r, ",Index:"); i >= 0 {
					j := strings.Index(r[i+1:], ",")
					r = r[:i] + ",Index:_" + r[i+1+j:]
				}
				nr = append(nr, r)
			}
			rows = nr
		}
		if t == "index" {
			continue // compared by indexTableDiff
		}
		if t == "peering-secret-uuids" {
			// Bookkeeping for the uniqueness check of freshly generated random secret UUIDs. Live, a
			// DIALING peer's remote-generated stream secret is not recorded here; restore records every
			// secret it finds. Not readable by any client; reachable only through a UUID collision.
			continue
		}
		out[t] = rows
	}
	return out
}

var indexKVRx = regexp.MustCompile(`Key:"([^"]*)",Value:(\d+)`)

func indexRows(d Dump) map[string]uint64 {
	m := map[string]uint64{}
	for _, row := range d["index"] {
		if sm := indexKVRx.FindStringSubmatch(row); sm != nil {
			var v uint64
			fmt.Sscan(sm[2], &v)
			m[sm[1]] = v
		}
	}
	return m
}

// indexTableDiff: restore re-derives derived tables (mesh topology, gateway links, kind names,
// virtual IPs ...) at header.LastIndex, so a table/entity index row of the restored store may be
// larger than the original's - never smaller, and never beyond the snapshot's last index. A larger
// index with an unchanged result is a spurious wake-up, which the blocking-query contract allows.
func indexTableDiff(orig, restored Dump, last uint64) string {
	return indexTableDiffOpt(orig, restored, last, false)
}

// derivedIndexQuery: queries whose reported index is (also) computed from derived rows or derived-table indexes.
func derivedIndexQuery(name string) bool {
	for _, p := range []string{"CheckConnectServiceNodes", "CheckIngressServiceNodes", "ConnectServiceNodes", "GatewayServices", "DumpGatewayServices",
		"ServiceTopology", "ServiceNamesOfKind", "ServiceDiscoveryChain", "ServiceDump"} {
		if strings.HasPrefix(name, p) {
			return true
		}
	}
	return false
}

func derivedIndexKey(k string) bool {
	return k == "gateway-services" || k == "mesh-topology" || strings.HasPrefix(k, "kind_service_names.")
}

// skipDerived: after further entries were applied to both replicas the index rows of DERIVED tables
// depend on whether an update of a derived row was a no-op, which in turn depends on the
// history-dependent attributes recorded as known findings; they are left out of the post-suffix check.
func indexTableDiffOpt(orig, restored Dump, last uint64, skipDerived bool) string {
	o, r := indexRows(orig), indexRows(restored)
	if skipDerived {
		for k := range o {
			if derivedIndexKey(k) {
				delete(o, k)
			}
		}
		for k := range r {
			if derivedIndexKey(k) {
				delete(r, k)
			}
		}
	}
	var out []string
	for _, k := range simkit.SortedKeys(o) {
		rv, ok := r[k]
		if k == "connect-ca-builtin-serial" {
			// not a Raft index: the built-in CA's serial-number counter lives in the index table
			if !ok || rv != o[k] {
				out = append(out, fmt.Sprintf("CA serial counter %d became %d (present=%v) after restore", o[k], rv, ok))
			}
			continue
		}
		switch {
		case !ok:
			out = append(out, fmt.Sprintf("index row %q (=%d) missing after restore", k, o[k]))
		case !derivedIndexKey(k) && rv != o[k] && !skipDerived:
			// base tables and per-entity rows are persisted verbatim: they must come back exactly
			out = append(out, fmt.Sprintf("index row %q changed across restore: %d -> %d", k, o[k], rv))
		case rv < o[k]:
			out = append(out, fmt.Sprintf("index row %q went backwards: %d -> %d", k, o[k], rv))
		case rv > last:
			out = append(out, fmt.Sprintf("index row %q = %d exceeds the snapshot's last index %d", k, rv, last))
		}
	}
	for _, k := range simkit.SortedKeys(r) {
		if _, ok := o[k]; !ok && r[k] > last && k != "connect-ca-builtin-serial" {
			out = append(out, fmt.Sprintf("index row %q = %d appeared beyond the snapshot's last index %d", k, r[k], last))
		}
	}
	return strings.Join(out, "\n")
}

// referenceKindNames recomputes the kind-service-names view from the registrations alone:
// (kind, name) for every local service with at least one instance, plus (connect-enabled, x)
// for every service x that has a connect-native instance or a sidecar proxy.
func referenceKindNames(r *Replica) map[string]bool {
	want := map[string]bool{}
	_, nodes, err := r.State().Services(nil, nil, "", false)
	if err != nil {
		panic(err)
	}
	for _, sn := range nodes {
		kind := string(sn.ServiceKind)
		want[fmt.Sprintf("Kind:%q,Service:ServiceName{Name:%q", kind, sn.ServiceName)] = true
		if sn.ServiceConnect.Native {
			want[fmt.Sprintf("Kind:%q,Service:ServiceName{Name:%q", "connect-enabled", sn.ServiceName)] = true
		}
		if sn.ServiceKind == structs.ServiceKindConnectProxy && sn.ServiceProxy.DestinationServiceName != "" {
			want[fmt.Sprintf("Kind:%q,Service:ServiceName{Name:%q", "connect-enabled", sn.ServiceProxy.DestinationServiceName)] = true
		}
	}
	// service-defaults entries that describe a destination outside the mesh
	_, entries, err := r.State().ConfigEntriesByKind(nil, structs.ServiceDefaults, nil)
	if err != nil {
		panic(err)
	}
	for _, e := range entries {
		if sd, ok := e.(*structs.ServiceConfigEntry); ok && sd.Destination != nil {
			want[fmt.Sprintf("Kind:%q,Service:ServiceName{Name:%q", "destination", sd.Name)] = true
		}
	}
	return want
}

// dropStaleKindNames removes kind-service-names rows that a recomputation from the registrations
// would not contain (known finding C07-stale-derived-rows-after-in-place-kind-change) and counts them.
func dropStaleKindNames(d Dump, ref map[string]bool, r *simkit.Run) {
	var keep []string
	for _, row := range d["kind-service-names"] {
		ok := false
		for k := range ref {
			if strings.Contains(row, k) {
				ok = true
				break
			}
		}
		if ok {
			keep = append(keep, row)
		} else if r != nil {
			r.Hit("known-finding.C07-stale-derived-rows-after-in-place-kind-change")
		}
	}
	d["kind-service-names"] = keep
}

type cutState struct {
	snap    raft.FSMSnapshot
	battery []QResult
	dump    Dump
	raw     Dump
	bytes   []byte
}

func (w C02) Execute(t *testing.T, pl simkit.Plan, r *simkit.Run) (v *simkit.Violation) {
	p := pl.(*Plan)
	var h *History
	if err := simkit.Bubble(t, func() { h = runLeader(p, r, false) }); err != nil {
		return &simkit.Violation{Class: "harness-panic", Invariant: "no-escaped-panic", Detail: err.Error()}
	}
	if h.Fatal != nil {
		return &simkit.Violation{Property: "C02", Class: "panic", Invariant: "apply-does-not-panic", Step: len(h.Log), Detail: h.Fatal.Error()}
	}
	if err := simkit.Bubble(t, func() { v = w.audit(p, h, r) }); err != nil {
		return &simkit.Violation{Class: "harness-panic", Invariant: "no-escaped-panic", Detail: err.Error()}
	}
	return v
}

func planNames(p *Plan) (keys, sessions []string) {
	ks, ss := map[string]bool{}, map[string]bool{}
	var walk func(s Step)
	walk = func(s Step) {
		if IsKV(s.Op) {
			ks[s.Key] = true
		}
		if strings.HasPrefix(s.Op, "session.") && s.Sess != "" {
			ss[s.Sess] = true
		}
		for _, o := range s.Ops {
			walk(o)
		}
	}
	for _, s := range p.Steps {
		walk(s)
	}
	ks[""] = true
	return simkit.SortedKeys(ks), simkit.SortedKeys(ss)
}

func (C02) audit(p *Plan, h *History, r *simkit.Run) *simkit.Violation {
	setDualStack(p.Cfg.Extra["dualstack"] == "on")
	if d := parseDur(p.Cfg.Extra["clock"], 0); d > 0 {
		time.Sleep(d)
		r.AdvanceSim(d)
	}
	gcTTL, gcGran := parseDur(p.Cfg.GCTTL, 15*time.Minute), parseDur(p.Cfg.GCGran, 30*time.Second)
	keys, sessions := planNames(p)
	battery := Battery(DefaultUniverse(), keys, sessions, BatteryExtra{Names: []string{"web-sidecar-proxy", "igw", "tgw", "mgw"}})
	n := len(h.Log)
	mk := func(k int, class, inv, culprit, detail string) *simkit.Violation {
		return &simkit.Violation{Property: "C02", Class: class, Invariant: inv, Step: k, Culprit: culprit, Detail: detail}
	}
	// --- replica A: apply h, taking a snapshot at every cut and persisting it `overlap` entries later
	A := NewReplica("A", gcTTL, gcGran)
	cuts := make([]*cutState, n+1)
	results := make([]string, n)
	wanted := func(k int) bool { return p.Cfg.Cut < 0 || p.Cfg.Cut == k }
	persist := func(k int) *simkit.Violation {
		cs := cuts[k]
		if cs == nil || cs.bytes != nil {
			return nil
		}
		sink := NewSink(-1, false)
		if err := cs.snap.Persist(sink); err != nil {
			return mk(k, "restore-mismatch", "persist-succeeds-on-healthy-sink", "persist", err.Error())
		}
		cs.bytes = bytes.Clone(sink.Bytes())
		cs.snap.Release()
		return nil
	}
	for k := 0; k <= n; k++ {
		if wanted(k) {
			snap, err := A.FSM.Snapshot()
			if err != nil {
				return mk(k, "restore-mismatch", "snapshot-succeeds", "snapshot", err.Error())
			}
			raw := A.DumpMasked(gatingMasks)
			dropStaleKindNames(raw, referenceKindNames(A), r)
			cuts[k] = &cutState{snap: snap, battery: EvalBatteryMasked(battery, A.State()), dump: c02NormalizeDump(raw), raw: raw}
		}
		// persist the snapshot taken `overlap` cuts ago: Persist must see the state at ITS cut
		if j := k - p.Cfg.Overlap; j >= 0 {
			if v := persist(j); v != nil {
				return v
			}
			if p.Cfg.Overlap > 0 && cuts[j] != nil {
				r.Hit("probe.persist-overlapped-applies")
			}
		}
		if k == n {
			break
		}
		resp, perr := A.Apply(h.Log[k])
		if perr != nil {
			return mk(k, "panic", "apply-does-not-panic", h.Log[k].Desc, perr.Error())
		}
		results[k] = CanonResult(resp)
	}
	for k := 0; k <= n; k++ {
		if v := persist(k); v != nil {
			return v
		}
	}
	finalRaw := A.DumpMasked(gatingMasks)
	dropStaleKindNames(finalRaw, referenceKindNames(A), r)
	finalDump := c02NormalizeDump(finalRaw)
	finalLast := maxIndexOf(finalRaw)
	finalBattery := EvalBatteryMasked(battery, A.State())
	r.Nontrivial = n >= 3

	// --- every cut
	for k := 0; k <= n; k++ {
		cs := cuts[k]
		if cs == nil {
			continue
		}
		r.Steps++
		r.Hit("probe.cut-exercised")
		B := NewReplica(fmt.Sprintf("B%d", k), gcTTL, gcGran)
		mode := "restart"
		if p.Cfg.Live && k > 0 {
			// install-snapshot on a live store that holds a different (shorter or longer) prefix
			mode = "install"
			pre := (k * 2) / 3
			if k%2 == 1 {
				pre = k - 1
			}
			for i := 0; i < pre; i++ {
				B.Apply(h.Log[i])
			}
			r.Hit("probe.restore-on-live-store")
		}
		oldStore := B.State()
		// header check: LastIndex equals the max index of the state at the cut
		var hdr fsm.SnapshotHeader
		if err := codec.NewDecoder(bytes.NewReader(cs.bytes), structs.MsgpackHandle).Decode(&hdr); err != nil {
			return mk(k, "restore-mismatch", "snapshot-header-decodes", "persist", err.Error())
		}
		if want := maxIndexOf(cs.raw); hdr.LastIndex != want {
			return mk(k, "restore-mismatch", "header-last-index-is-max-index", "persist", fmt.Sprintf("cut %d: header.LastIndex=%d, max index in the index table=%d", k, hdr.LastIndex, want))
		}
		// reader fault: truncated / failing stream must fail Restore and leave B untouched
		if len(cs.bytes) > 2 && k%3 == 0 {
			before := B.Dump()
			for _, cutAt := range []int{1, len(cs.bytes) / 2, len(cs.bytes) - 1} {
				rd := NewReader(cs.bytes)
				rd.ErrAt = cutAt
				err := safeRestore(B, rd)
				r.Hit("fault.restore-reader-error")
				if err == nil {
					return mk(k, "restore-partial-swap", "restore-fails-on-failing-reader", "restore", fmt.Sprintf("cut %d: reader failed at byte %d of %d but Restore reported success", k, cutAt, len(cs.bytes)))
				}
				if B.State() != oldStore {
					return mk(k, "restore-partial-swap", "failed-restore-keeps-old-store", "restore", fmt.Sprintf("cut %d: Restore failed (%v) but swapped the state store", k, err))
				}
				if d := B.Dump().Diff(before, nil); d != "" {
					return mk(k, "restore-partial-swap", "failed-restore-keeps-old-state", "restore", fmt.Sprintf("cut %d: Restore failed (%v) but state changed:\n%s", k, err, d))
				}
				select {
				case <-oldStore.AbandonCh():
					return mk(k, "restore-partial-swap", "failed-restore-does-not-abandon", "restore", fmt.Sprintf("cut %d: Restore failed (%v) but abandoned the live store", k, err))
				default:
				}
			}
		}
		rd := NewReader(cs.bytes)
		rd.Chunk = []int{0, 1, 7, 512}[k%4]
		if err := safeRestore(B, rd); err != nil {
			return mk(k, "restore-mismatch", "restore-succeeds", mode, fmt.Sprintf("cut %d: %v", k, err))
		}
		// (4) old store abandoned
		select {
		case <-oldStore.AbandonCh():
		default:
			return mk(k, "restore-mismatch", "old-store-abandoned", mode, fmt.Sprintf("cut %d: store in use before Restore was not abandoned", k))
		}
		// (3) query battery immediately after restore
		got := EvalBatteryMasked(battery, B.State())
		if v := compareBatteryRun(r, battery, cs.battery, got, hdr.LastIndex, k, mode, mk); v != nil {
			if strings.Contains(v.Culprit, ":index") {
				v.Detail += fmt.Sprintf("\nindex table original: %v\nindex table restored: %v", indexRows(cs.raw), indexRows(B.Dump()))
			}
			return v
		}
		if d := indexTableDiff(cs.raw, B.Dump(), hdr.LastIndex); d != "" {
			return mk(k, "restore-mismatch", "index-table-consistent-after-restore", mode, fmt.Sprintf("cut %d of %d (%s):\n%s", k, n, mode, d))
		}
		// (2) raw tables
		if d := c02Dump(B).Diff(cs.dump, nil); d != "" {
			return mk(k, "restore-mismatch", "tables-identical-after-restore", mode+":"+strings.Join(c02Dump(B).DiffTables(cs.dump), ","),
				fmt.Sprintf("cut %d of %d (%s), A=restored B=original:\n%s", k, n, mode, d))
		}
		// (1) later entries
		for i := k; i < n; i++ {
			resp, perr := B.Apply(h.Log[i])
			if perr != nil {
				return mk(k, "panic", "apply-does-not-panic", h.Log[i].Desc, perr.Error())
			}
			if got := CanonResult(resp); got != results[i] {
				return mk(k, "restore-mismatch", "later-results-identical", opOfDesc(h.Log[i].Desc),
					fmt.Sprintf("cut %d: entry %d (%s) returned %s on the restored replica, %s on the original", k, h.Log[i].Index, h.Log[i].Desc, simkit.Trunc(got, 600), simkit.Trunc(results[i], 600)))
			}
		}
		if k < n {
			if d := c02Dump(B).Diff(finalDump, nil); d != "" {
				return mk(k, "restore-mismatch", "final-tables-identical", mode+":"+strings.Join(c02Dump(B).DiffTables(finalDump), ","),
					fmt.Sprintf("cut %d of %d (%s), after applying the rest of the history, A=restored B=original:\n%s", k, n, mode, d))
			}
			if v := compareBatteryRun(r, battery, finalBattery, EvalBatteryMasked(battery, B.State()), finalLast, k, mode+"+suffix", mk); v != nil {
				return v
			}
			if d := indexTableDiffOpt(finalRaw, B.Dump(), finalLast, true); d != "" {
				return mk(k, "restore-mismatch", "final-index-table-consistent", mode, fmt.Sprintf("cut %d of %d (%s), after the rest of the history:\n%s", k, n, mode, d))
			}
		}
		B.GC.SetEnabled(false)
	}
	// --- sink faults: a failing or short write anywhere makes Persist fail
	if n > 0 && cuts[n] != nil {
		total := len(cuts[n].bytes)
		offs := []int{0, 1, total / 3, total / 2, total - 1}
		for _, off := range offs {
			if off < 0 || off >= total {
				continue
			}
			for _, short := range []bool{false, true} {
				snap, err := A.FSM.Snapshot()
				if err != nil {
					return mk(n, "persist-not-atomic", "snapshot-succeeds", "snapshot", err.Error())
				}
				sink := NewSink(off, short)
				perr := snap.Persist(sink)
				snap.Release()
				r.Hit("fault.sink-write-error")
				if perr == nil {
					return mk(n, "persist-not-atomic", "persist-fails-on-failing-sink", "persist", fmt.Sprintf("sink failed at byte %d of %d (short=%v) but Persist reported success", off, total, short))
				}
			}
		}
	}
	A.GC.SetEnabled(false)
	return nil
}

func c02Dump(b *Replica) Dump {
	d := b.DumpMasked(gatingMasks)
	dropStaleKindNames(d, referenceKindNames(b), nil)
	return c02NormalizeDump(d)
}

func safeRestore(b *Replica, rd *Reader) (err error) {
	defer func() {
		if p := recover(); p != nil {
			err = fmt.Errorf("panic in FSM.Restore: %v", p)
		}
	}()
	return b.FSM.Restore(rd)
}

func compareBattery(qs []Query, want, got []QResult, last uint64, k int, mode string, mk func(int, string, string, string, string) *simkit.Violation) *simkit.Violation {
	return compareBatteryRun(nil, qs, want, got, last, k, mode, mk)
}

func compareBatteryRun(r *simkit.Run, qs []Query, want, got []QResult, last uint64, k int, mode string, mk func(int, string, string, string, string) *simkit.Violation) *simkit.Violation {
	var diffs []string
	groups := map[string]bool{}
	for i, q := range qs {
		w, g := want[i], got[i]
		// error TEXT may name whichever of several failing items a map iteration met first:
		// errors are compared by presence, results by content
		if (w.Err == "") != (g.Err == "") || w.Result != g.Result {
			diffs = append(diffs, fmt.Sprintf("%s: result differs\n   original: %s %s\n   restored: %s %s", q.Name, simkit.Trunc(w.Result, 500), w.Err, simkit.Trunc(g.Result, 500), g.Err))
			groups[q.Group+":result"] = true
		} else if r != nil && w.Unmasked != g.Unmasked {
			r.Hit("known-finding.C02-gateway-service-kind-history-dependent")
		}
		if (w.Err == "") != (g.Err == "") || w.Result != g.Result {
		} else if !q.UsageMetric && g.Index != w.Index && !derivedIndexQuery(q.Name) {
			// queries whose index comes from base tables / per-entity rows report exactly the same index
			diffs = append(diffs, fmt.Sprintf("%s: same result, query index original=%d restored=%d (snapshot last index %d)", q.Name, w.Index, g.Index, last))
			groups[q.Group+":index"] = true
		} else if !q.UsageMetric && g.Index != w.Index && (g.Index > last || g.Index == 0) {
			// Query indexes that are computed from the Raft indexes of DERIVED rows (gateway links, topology,
			// kind names) move when restore re-derives those rows; the blocking-query contract exempts restore
			// from monotonicity. What must hold: never beyond the snapshot's last index, never zero when the
			// original was not. Table/entity index ROWS are held to the stricter rule of indexTableDiff.
			diffs = append(diffs, fmt.Sprintf("%s: same result, query index original=%d restored=%d (snapshot last index %d)", q.Name, w.Index, g.Index, last))
			groups[q.Group+":index"] = true
		}
	}
	if len(diffs) == 0 {
		return nil
	}
	gs := make([]string, 0, len(groups))
	for g := range groups {
		gs = append(gs, g)
	}
	sort.Strings(gs)
	if len(diffs) > 6 {
		diffs = append(diffs[:6], fmt.Sprintf("... and %d more", len(diffs)-6))
	}
	return mk(k, "restore-mismatch", "queries-identical-after-restore", mode+":"+strings.Join(gs, ","), fmt.Sprintf("cut %d (%s):\n%s", k, mode, strings.Join(diffs, "\n")))
}

var indexRowRx = regexp.MustCompile(`Value:(\d+)`)

func maxIndexOf(d Dump) uint64 {
	var m uint64
	for _, row := range d["index"] {
		if strings.Contains(row, "connect-ca-builtin-serial") {
			continue // a counter, not a Raft index
		}
		if sm := indexRowRx.FindStringSubmatch(row); sm != nil {
			var v uint64
			fmt.Sscan(sm[1], &v)
			if v > m {
				m = v
			}
		}
	}
	return m
}
