//go:build verif

package fsmworld

import (
	"fmt"
	"math/rand/v2"
	"reflect"
	"sort"
	"strings"
	"testing"
	"time"

	"github.com/hashicorp/consul/agent/structs"
	"github.com/hashicorp/consul/internal/verifsim/simkit"
	"github.com/hashicorp/consul/types"
)

// C04: locks have one holder, only live sessions hold locks, and whenever a
// session ends - by any path - its keys, check links and session-bound
// prepared queries are cleaned up in that same committed entry.
type C04 struct{}

func (C04) Decode(raw []byte) (simkit.Plan, error) { return DecodePlan(raw) }

func (C04) Generate(rng *rand.Rand, tier string, runIdx uint64) simkit.Plan {
	u := DefaultUniverse()
	u.Keys = []string{"a", "a/b", "ab", "b", "a/"}
	if simkit.Chance(rng, 25) {
		// node names keep the spelling they were registered with; lookups by node are case-insensitive
		u.Nodes = []string{"Node-A", "n2", "N3"}
	}
	u.Nodes = u.Nodes[:1+rng.IntN(3)]
	w := Weights{Register: 14, Deregister: 10, KV: 26, Session: 20, Txn: 14, Reap: 1, Advance: 8, Snapshot: 2, Restart: 2, KVLockBias: 40}
	switch rng.IntN(4) {
	case 0:
		w.Txn = 30
	case 1:
		w.Txn = 0
	}
	if simkit.Chance(rng, 40) {
		w.Fault = 6
	}
	g := NewGen(rng, u, w)
	n := 12 + rng.IntN(60)
	p := &Plan{Cfg: Cfg{GCTTL: "15m", GCGran: "30s"}}
	for len(p.Steps) < n {
		var s Step
		switch {
		case simkit.Chance(rng, 6):
			s = g.PreparedQuery()
		case simkit.Chance(rng, 6):
			// flip a check to critical / back (node-level or service-level)
			s = Step{Op: "register", Node: g.pick(u.Nodes), SkipNode: true, Checks: []Check{{ID: g.pick(u.Checks), Status: g.status()}}}
			if simkit.Chance(rng, 50) {
				s.SkipNode = false
				s.Addr = "10.0.0.9"
			}
		case simkit.Chance(rng, 5):
			p.Steps = append(p.Steps, g.Macro()...)
			continue
		default:
			s = g.Next()
		}
		p.Steps = append(p.Steps, s)
	}
	return p
}

func (g *Gen) PreparedQuery() Step {
	switch simkit.Weighted(g.R, []int{70, 30}) {
	case 0:
		g.queryN++
		id := g.queryN
		if g.queryN > 1 && simkit.Chance(g.R, 30) {
			id = 1 + g.R.IntN(g.queryN) // update of an existing query
		}
		s := Step{Op: "pq.set", ID: QueryUUID(id), Name: fmt.Sprintf("q%d", id), Svc: g.pick(g.U.Services)}
		if simkit.Chance(g.R, 70) {
			s.Sess = g.sess()
		}
		return s
	}
	return Step{Op: "pq.delete", ID: QueryUUID(1 + g.R.IntN(g.queryN+1))}
}

func (w C04) Execute(t *testing.T, pl simkit.Plan, r *simkit.Run) (v *simkit.Violation) {
	if err := simkit.Bubble(t, func() { v = w.execute(pl.(*Plan), r) }); err != nil {
		return &simkit.Violation{Class: "harness-panic", Invariant: "no-escaped-panic", Detail: err.Error()}
	}
	return v
}

type holderView struct {
	keys     map[string]structs.DirEntry // all keys
	sessions map[string]*structs.Session
	links    []string          // sessions named by session_checks rows
	queries  map[string]string // query id -> session
}

func viewHolders(r *Replica) holderView {
	hv := holderView{keys: map[string]structs.DirEntry{}, queries: map[string]string{}}
	_, ents, err := r.State().KVSList(nil, "", nil)
	if err != nil {
		panic(err)
	}
	for _, e := range ents {
		hv.keys[e.Key] = *e
	}
	hv.sessions = liveSessions(r)
	r.State().WalkAllTables(func(table string, item interface{}) bool {
		if table == "session_checks" {
			v := reflect.Indirect(reflect.ValueOf(item))
			hv.links = append(hv.links, v.FieldByName("Session").String())
		}
		return true
	})
	sort.Strings(hv.links)
	_, qs, err := r.State().PreparedQueryList(nil)
	if err != nil {
		panic(err)
	}
	for _, q := range qs {
		hv.queries[q.ID] = q.Session
	}
	return hv
}

func (C04) execute(p *Plan, r *simkit.Run) *simkit.Violation {
	c := NewCluster(r, parseDur(p.Cfg.GCTTL, 15*time.Minute), parseDur(p.Cfg.GCGran, 30*time.Second))
	defer c.Close()
	var viol *simkit.Violation
	cur := -1
	var curStep Step
	prev := viewHolders(c.L)
	mk := func(class, inv, detail string) *simkit.Violation {
		return &simkit.Violation{Property: "C04", Class: class, Invariant: inv, Step: cur, Culprit: culpritOf(curStep), Detail: detail}
	}
	check := func(e Entry) {
		if viol != nil {
			return
		}
		now := viewHolders(c.L)
		// (i) every holder is a live session
		for _, k := range simkit.SortedKeys(now.keys) {
			if s := now.keys[k].Session; s != "" && now.sessions[s] == nil {
				viol = mk("dangling-holder", "key-holder-must-exist", fmt.Sprintf("after entry %d (%s): key %q is held by session %s which does not exist", e.Index, e.Desc, k, tail8(s)))
				return
			}
		}
		// (ii) check links and session-bound queries name live sessions
		for _, s := range now.links {
			if now.sessions[s] == nil {
				viol = mk("dangling-link", "session-check-link-must-name-live-session", fmt.Sprintf("after entry %d (%s): session_checks row names missing session %s", e.Index, e.Desc, tail8(s)))
				return
			}
		}
		for _, id := range simkit.SortedKeys(now.queries) {
			if s := now.queries[id]; s != "" && now.sessions[s] == nil {
				viol = mk("dangling-link", "session-bound-query-must-name-live-session", fmt.Sprintf("after entry %d (%s): prepared query %s is bound to missing session %s", e.Index, e.Desc, tail8(id), tail8(s)))
				return
			}
		}
		// (vi) a session never outlives its node (deregistering the node ends its sessions in the same entry)
		for _, id := range simkit.SortedKeys(now.sessions) {
			sess := now.sessions[id]
			_, nd, err := c.L.State().GetNode(sess.Node, nil, "")
			if err != nil {
				panic(err)
			}
			if nd == nil {
				viol = mk("dangling-link", "session-ends-with-its-node", fmt.Sprintf("after entry %d (%s): session %s belongs to node %q, which is not registered", e.Index, e.Desc, tail8(id), sess.Node))
				return
			}
		}
		// (v) a session never outlives the health checks it is bound to: each of them exists on the session's
		// node and is not critical (otherwise the entry that deleted the check / made it critical had to end the session)
		for _, id := range simkit.SortedKeys(now.sessions) {
			sess := now.sessions[id]
			for _, cid := range sessionCheckIDs(sess) {
				_, hc, err := c.L.State().NodeCheck(sess.Node, cid, nil, "")
				if err != nil {
					panic(err)
				}
				if hc == nil {
					viol = mk("dangling-link", "session-ends-with-its-checks", fmt.Sprintf("after entry %d (%s): session %s is bound to check %q on node %q, which does not exist", e.Index, e.Desc, tail8(id), cid, sess.Node))
					return
				}
				if hc.Status == "critical" {
					viol = mk("dangling-link", "session-ends-with-its-checks", fmt.Sprintf("after entry %d (%s): session %s is still alive although its check %q on node %q is critical", e.Index, e.Desc, tail8(id), cid, sess.Node))
					return
				}
			}
		}
		// (iv) a session that ended in this entry has released or deleted its keys in this entry
		for _, id := range simkit.SortedKeys(prev.sessions) {
			if now.sessions[id] != nil {
				continue
			}
			r.Hit("probe.session-ended")
			sess := prev.sessions[id]
			for _, k := range simkit.SortedKeys(prev.keys) {
				if prev.keys[k].Session != id {
					continue
				}
				r.Hit("probe.session-ended-holding-keys")
				// inside a transaction an earlier op may have released, re-locked, rewritten or deleted the key
				// before the op that ended the session ran: then the key is no longer this session's to release
				touched := false
				if curStep.Op == "txn" && strings.HasPrefix(e.Desc, "txn") {
					for _, o := range curStep.Ops {
						if IsKV(o.Op) && (o.Key == k || (o.Op == "kv.delete-tree" && strings.HasPrefix(k, o.Key))) {
							touched = true
						}
					}
				}
				if touched {
					continue
				}
				a, ok := now.keys[k]
				switch {
				case sess.Behavior == structs.SessionKeysDelete && ok && a.CreateIndex == prev.keys[k].CreateIndex:
					viol = mk("release-not-atomic", "delete-behaviour-removes-keys-with-session", fmt.Sprintf("entry %d (%s) ended session %s (behaviour delete) but key %q survives", e.Index, e.Desc, tail8(id), k))
					return
				case sess.Behavior != structs.SessionKeysDelete && ok && a.Session == id:
					viol = mk("release-not-atomic", "release-behaviour-frees-keys-with-session", fmt.Sprintf("entry %d (%s) ended session %s but key %q still names it", e.Index, e.Desc, tail8(id), k))
					return
				}
			}
		}
		prev = now
	}
	c.OnCommit = func(e Entry, _ any) { check(e) }

	maxTTL := time.Duration(0)
	for i, s := range p.Steps {
		cur, curStep = i, s
		r.Steps++
		r.Sig(s.Op)
		before := prev
		fo := c.Failovers
		out := c.Do(s)
		if c.Fatal != nil {
			return mk("panic", "apply-does-not-panic", c.Fatal.Error())
		}
		if viol != nil {
			return viol
		}
		if c.Failovers != fo {
			prev = viewHolders(c.L)
		}
		if d, err := time.ParseDuration(s.TTL); err == nil && d > maxTTL {
			maxTTL = d
		}
		// (iii) acquire/release verdicts
		if (s.Op == "kv.lock" || s.Op == "kv.unlock") && len(out.Appended) == 1 {
			holder := ""
			if e, ok := before.keys[s.Key]; ok {
				holder = e.Session
			}
			got, isBool := out.Resp.(bool)
			switch s.Op {
			case "kv.lock":
				live := before.sessions[s.Sess] != nil
				want := live && (holder == "" || holder == s.Sess)
				if isBool && got != want || (!live && isBool && got) {
					return mk("model-mismatch:kv.lock", "acquire-iff-free-or-same-holder", fmt.Sprintf("%s: holder before=%q session live=%v, store answered %v", s.Short(), tail8(holder), live, out.Resp))
				}
				if isBool && got {
					r.Hit("probe.lock-acquired")
				} else {
					r.Hit("probe.lock-refused")
				}
			case "kv.unlock":
				want := holder != "" && holder == s.Sess
				if isBool && got != want {
					return mk("model-mismatch:kv.unlock", "only-holder-releases", fmt.Sprintf("%s: holder before=%q, store answered %v", s.Short(), tail8(holder), out.Resp))
				}
			}
		}
	}
	// bounded liveness: once faults have stopped, every session with a TTL is gone within
	// 2*TTL plus the invalidation back-off (the harness advances well past that, fault-free)
	if maxTTL > 0 {
		cur, curStep = len(p.Steps), Step{Op: "advance(final)"}
		for i := 0; i < 4; i++ {
			c.Do(Step{Op: "advance", Dur: (2*maxTTL + 10*time.Minute).String()})
			if viol != nil {
				return viol
			}
		}
		for _, id := range simkit.SortedKeys(prev.sessions) {
			if s := prev.sessions[id]; s.TTL != "" {
				now := viewHolders(c.L)
				if now.sessions[id] != nil {
					return mk("ttl-liveness", "expired-session-is-destroyed", fmt.Sprintf("session %s (TTL %s) still exists long after its TTL with no faults", tail8(id), s.TTL))
				}
			}
		}
		r.Hit("probe.ttl-liveness-checked")
	}
	r.Nontrivial = len(c.Log) >= 3
	return nil
}

func culpritOf(s Step) string {
	if s.Op != "txn" {
		return s.Op
	}
	seen := map[string]bool{}
	var ops []string
	for _, o := range s.Ops {
		if !seen[o.Op] {
			seen[o.Op] = true
			ops = append(ops, o.Op)
		}
	}
	sort.Strings(ops)
	return "txn:" + fmt.Sprint(ops)
}

// sessionCheckIDs: every check a session names, in any of the three fields the API accepts
// (the oracle does not use Session.CheckIDs, which is code under test).
func sessionCheckIDs(sess *structs.Session) []types.CheckID {
	seen := map[types.CheckID]bool{}
	var out []types.CheckID
	add := func(id types.CheckID) {
		if !seen[id] {
			seen[id] = true
			out = append(out, id)
		}
	}
	for _, c := range sess.Checks {
		add(c)
	}
	for _, c := range sess.NodeChecks {
		add(types.CheckID(c))
	}
	for _, c := range sess.ServiceChecks {
		add(types.CheckID(c.ID))
	}
	return out
}
