//go:build verif

package fsmworld

import (
	"bytes"
	"fmt"
	"math/rand/v2"
	"sort"
	"strings"
	"testing"
	"time"

	"github.com/hashicorp/consul/agent/consul"
	"github.com/hashicorp/consul/agent/structs"
	"github.com/hashicorp/consul/internal/verifsim/simkit"
)

// ---------------------------------------------------------------------------
// KV reference model: a sequential versioned map, written from the KV HTTP API
// documentation (not from kvs.go).
//
// Adopted readings where the documentation is silent:
//   - a plain set / check-and-set writes value, flags and the request's lock
//     counter (0 for every real client) and never touches the holder;
//   - delete-cas on an absent key reports success (idempotent delete);
//   - unlock writes the value/flags carried by the request.

type mkv struct {
	Val    []byte
	Flags  uint64
	Sess   string
	Lock   uint64
	Create uint64
	Modify uint64
}

type kvModel struct {
	keys map[string]*mkv
}

func newKVModel() *kvModel { return &kvModel{keys: map[string]*mkv{}} }

func (m *kvModel) clone() *kvModel {
	c := newKVModel()
	for k, v := range m.keys {
		cp := *v
		cp.Val = append([]byte(nil), v.Val...)
		c.keys[k] = &cp
	}
	return c
}

type kvResult struct {
	isBool bool
	b      bool
	err    string // non-empty: the op reports an error (class)
}

func same(a, b *mkv) bool {
	return a.Lock == b.Lock && a.Flags == b.Flags && bytes.Equal(a.Val, b.Val) && a.Sess == b.Sess
}

func (m *kvModel) write(key string, n *mkv, idx uint64) {
	if old, ok := m.keys[key]; ok {
		n.Create = old.Create
		if same(old, n) {
			n.Modify = old.Modify
		} else {
			n.Modify = idx
		}
	} else {
		n.Create, n.Modify = idx, idx
	}
	m.keys[key] = n
}

// apply one KV verb. live tells whether a session id currently exists.
func (m *kvModel) apply(op, key string, val []byte, flags uint64, sess string, cidx, idx uint64, live func(string) bool) kvResult {
	old, exists := m.keys[key]
	switch op {
	case "kv.set":
		n := &mkv{Val: val, Flags: flags}
		if exists {
			n.Sess = old.Sess
		}
		m.write(key, n, idx)
		return kvResult{}
	case "kv.cas":
		if cidx == 0 && exists {
			return kvResult{isBool: true, b: false}
		}
		if cidx != 0 && (!exists || old.Modify != cidx) {
			return kvResult{isBool: true, b: false}
		}
		n := &mkv{Val: val, Flags: flags}
		if exists {
			n.Sess = old.Sess
		}
		m.write(key, n, idx)
		return kvResult{isBool: true, b: true}
	case "kv.delete":
		delete(m.keys, key)
		return kvResult{}
	case "kv.delete-cas":
		if !exists {
			return kvResult{isBool: true, b: true}
		}
		if old.Modify != cidx {
			return kvResult{isBool: true, b: false}
		}
		delete(m.keys, key)
		return kvResult{isBool: true, b: true}
	case "kv.delete-tree":
		for k := range m.keys {
			if strings.HasPrefix(k, key) {
				delete(m.keys, k)
			}
		}
		return kvResult{}
	case "kv.lock":
		if sess == "" {
			return kvResult{err: "missing session"}
		}
		if !live(sess) {
			return kvResult{err: "invalid session"}
		}
		n := &mkv{Val: val, Flags: flags, Sess: sess}
		switch {
		case !exists:
			n.Lock = 1
		case old.Sess == sess:
			n.Lock = old.Lock
		case old.Sess != "":
			return kvResult{isBool: true, b: false}
		default:
			n.Lock = old.Lock + 1
		}
		m.write(key, n, idx)
		return kvResult{isBool: true, b: true}
	case "kv.unlock":
		if sess == "" {
			return kvResult{err: "missing session"}
		}
		if !exists || old.Sess != sess {
			return kvResult{isBool: true, b: false}
		}
		n := &mkv{Val: val, Flags: flags, Lock: old.Lock}
		m.write(key, n, idx)
		return kvResult{isBool: true, b: true}
	case "kv.get":
		if !exists {
			return kvResult{err: "doesn't exist"}
		}
		return kvResult{}
	case "kv.get-tree", "kv.get-or-empty":
		return kvResult{}
	case "kv.check-index":
		if !exists {
			return kvResult{err: "doesn't exist"}
		}
		if old.Modify != cidx {
			return kvResult{err: "index"}
		}
		return kvResult{}
	case "kv.check-session":
		if !exists {
			return kvResult{err: "doesn't exist"}
		}
		if old.Sess != sess {
			return kvResult{err: "session"}
		}
		return kvResult{}
	case "kv.check-not-exists":
		if exists {
			return kvResult{err: "exists"}
		}
		return kvResult{}
	}
	return kvResult{err: "unknown verb"}
}

// sessionEnded applies a session's end to the keys it holds.
func (m *kvModel) sessionEnded(id string, behavior structs.SessionBehavior, idx uint64) (released []string) {
	for _, k := range simkit.SortedKeys(m.keys) {
		e := m.keys[k]
		if e.Sess != id {
			continue
		}
		released = append(released, k)
		if behavior == structs.SessionKeysDelete {
			delete(m.keys, k)
			continue
		}
		n := *e
		n.Sess = ""
		m.write(k, &n, idx)
	}
	return released
}

// ---------------------------------------------------------------------------

type kvSnapshot map[string]structs.DirEntry

func readKV(r *Replica, keys []string) kvSnapshot {
	out := kvSnapshot{}
	for _, k := range keys {
		if k == "" {
			continue // the empty key cannot exist (endpoints refuse it); "" is only a prefix
		}
		_, e, err := r.State().KVSGet(nil, k, nil)
		if err != nil {
			panic(err)
		}
		if e != nil {
			out[k] = *e
		}
	}
	return out
}

func liveSessions(r *Replica) map[string]*structs.Session {
	_, ss, err := r.State().SessionList(nil, nil)
	if err != nil {
		panic(err)
	}
	out := map[string]*structs.Session{}
	for _, s := range ss {
		out[s.ID] = s
	}
	return out
}

// C03 is the KV-as-sequential-versioned-map world.
type C03 struct{}

func (C03) Decode(raw []byte) (simkit.Plan, error) { return DecodePlan(raw) }

func (C03) Generate(rng *rand.Rand, tier string, runIdx uint64) simkit.Plan {
	u := DefaultUniverse()
	// swarm: vary key pool size and families
	nk := 3 + rng.IntN(len(u.Keys)-2)
	perm := rng.Perm(len(DefaultKeys))
	u.Keys = nil
	for _, i := range perm[:nk] {
		u.Keys = append(u.Keys, DefaultKeys[i])
	}
	sort.Strings(u.Keys)
	w := Weights{Register: 6, Deregister: 4, KV: 50, Session: 12, Txn: 14, Reap: 3, Advance: 6, Snapshot: 2, Restart: 2,
		KVLockBias: []int{0, 10, 30}[rng.IntN(3)]}
	if simkit.Chance(rng, 30) {
		w.Txn = 0
	}
	if simkit.Chance(rng, 20) {
		w.Restart, w.Snapshot = 0, 0
	}
	if simkit.Chance(rng, 50) {
		w.Fault = 5
	}
	g := NewGen(rng, u, w)
	n := 10 + rng.IntN(70)
	if tier == "thorough" && simkit.Chance(rng, 20) {
		n = 80 + rng.IntN(200)
	}
	p := &Plan{Cfg: Cfg{GCTTL: simkit.Pick(rng, []string{"15m", "30s", "2m"}), GCGran: simkit.Pick(rng, []string{"30s", "1s"})}}
	// most runs start with a node so sessions can exist
	if simkit.Chance(rng, 85) {
		p.Steps = append(p.Steps, Step{Op: "register", Node: "n1", NodeID: NodeUUID(1), Addr: "10.0.0.1",
			Checks: []Check{{ID: "serfHealth", Status: "passing"}}})
	}
	for len(p.Steps) < n {
		if simkit.Chance(rng, 4) {
			p.Steps = append(p.Steps, g.Macro()...)
			continue
		}
		s := g.Next()
		if s.Op == "txn" {
			// C03 keeps transactions KV-only (mixed transactions are C04/C05's subject)
			var ops []Step
			for range s.Ops {
				ops = append(ops, g.KV(true))
			}
			s.Ops = ops
		}
		p.Steps = append(p.Steps, s)
	}
	return p
}

func parseDur(s string, def time.Duration) time.Duration {
	if d, err := time.ParseDuration(s); err == nil && d > 0 {
		return d
	}
	return def
}

func (w C03) Execute(t *testing.T, pl simkit.Plan, r *simkit.Run) (v *simkit.Violation) {
	if err := simkit.Bubble(t, func() { v = w.execute(pl.(*Plan), r) }); err != nil {
		return &simkit.Violation{Class: "harness-panic", Invariant: "no-escaped-panic", Detail: err.Error()}
	}
	return v
}

func (C03) execute(p *Plan, r *simkit.Run) *simkit.Violation {
	c := NewCluster(r, parseDur(p.Cfg.GCTTL, 15*time.Minute), parseDur(p.Cfg.GCGran, 30*time.Second))
	defer c.Close()
	model := newKVModel()
	keys := map[string]bool{}
	for _, s := range p.Steps {
		if s.Key != "" || IsKV(s.Op) {
			keys[s.Key] = true
		}
		for _, o := range s.Ops {
			keys[o.Key] = true
		}
	}
	for _, k := range DefaultKeys {
		keys[k] = true
	}
	pool := simkit.SortedKeys(keys)
	// lock-delay windows the current leader may legitimately enforce: key -> latest possible expiry
	delayUntil := map[string]time.Time{}
	// session table as of each committed entry (a step may commit several entries: its own
	// command plus background proposals such as TTL expiry and tombstone reaping)
	sessAt := map[uint64]map[string]*structs.Session{}
	c.OnCommit = func(e Entry, _ any) { sessAt[e.Index] = liveSessions(c.L) }

	mk := func(i int, s Step, class, inv, detail string) *simkit.Violation {
		return &simkit.Violation{Property: "C03", Class: class, Invariant: inv, Step: i, Culprit: s.Op, Detail: detail}
	}
	for i, s := range p.Steps {
		r.Steps++
		before := readKV(c.L, pool)
		sessBefore := liveSessions(c.L)
		modelBefore := model.clone()
		logBefore := len(c.Log)
		now := time.Now()
		fo := c.Failovers
		out := c.Do(s)
		if c.Fatal != nil {
			return mk(i, s, "panic", "apply-does-not-panic", c.Fatal.Error())
		}
		r.Sig(s.Op)
		if c.Failovers != fo {
			// the new leader re-arms lock-delays while it replays session ends from the log,
			// measured from its own clock at replay time: keep a superset of the windows
			for k := range delayUntil {
				delayUntil[k] = time.Now().Add(structs.MaxLockDelay)
			}
		}
		// Every entry committed during this step (the step's own command plus any
		// background proposals such as TTL expiry) is folded into the model.
		for _, e := range c.Log[logBefore:] {
			idx := e.Index
			isOwn := len(out.Appended) > 0 && out.Appended[0] == idx
			if isOwn && IsKV(s.Op) {
				cidx := resolveIdx(s.Idx, indexOf(before, s.Key))
				res := model.apply(s.Op, s.Key, []byte(s.Val), s.Flags, s.Sess, cidx, idx, func(id string) bool { return sessBefore[id] != nil })
				if s.Val == "" {
					// the request carried a nil value
					if e, ok := model.keys[s.Key]; ok && len(e.Val) == 0 {
						e.Val = nil
					}
				}
				if vi := compareKVResult(res, out.Resp); vi != "" {
					return mk(i, s, "model-mismatch:"+s.Op, "result-equals-model", fmt.Sprintf("%s: %s", s.Short(), vi))
				}
				r.Sig(fmt.Sprintf("%v%v", res.b, res.err != ""))
			} else if isOwn && s.Op == "txn" {
				trial := model.clone()
				failed := ""
				for j, o := range s.Ops {
					cidx := resolveIdx(o.Idx, indexOf(before, o.Key))
					res := trial.apply(o.Op, o.Key, []byte(o.Val), o.Flags, o.Sess, cidx, idx, func(id string) bool { return sessBefore[id] != nil })
					if res.err != "" || (res.isBool && !res.b) {
						failed = fmt.Sprintf("op %d (%s)", j, o.Short())
						break
					}
				}
				resp, _ := out.Resp.(structs.TxnResponse)
				if failed == "" {
					model = trial
					if len(resp.Errors) > 0 {
						return mk(i, s, "model-mismatch:txn", "txn-succeeds-iff-model", fmt.Sprintf("model: all ops succeed; store: %v", resp.Errors))
					}
					r.Hit("probe.txn-committed")
				} else {
					if len(resp.Errors) == 0 {
						return mk(i, s, "model-mismatch:txn", "txn-succeeds-iff-model", "model: "+failed+" fails; store reported no error")
					}
					r.Hit("probe.txn-rolled-back")
				}
			}
			// sessions that ended in this entry release/delete their keys (observed input, see DESIGN C03)
			sessAfter := sessAt[idx]
			for _, id := range simkit.SortedKeys(sessBefore) {
				if sessAfter[id] == nil {
					sess := sessBefore[id]
					rel := model.sessionEnded(id, sess.Behavior, idx)
					d := sess.LockDelay
					if d > structs.MaxLockDelay {
						d = structs.MaxLockDelay
					}
					if d > 0 {
						for _, k := range rel {
							delayUntil[k] = time.Now().Add(d)
						}
					}
					if len(rel) > 0 {
						r.Hit("probe.session-end-released-keys")
					}
					delete(sessBefore, id)
				}
			}
		}
		if out.PreFalse {
			// a lock answered false without being appended must be explained by a lock-delay window
			if until, ok := delayUntil[s.Key]; !ok || !until.After(now) {
				return mk(i, s, "model-mismatch:kv.lock", "lock-refused-only-when-held-or-delayed",
					fmt.Sprintf("lock of %q refused by the leader without a lock-delay in force", s.Key))
			}
		}
		// state equality, key by key
		after := readKV(c.L, pool)
		if d := diffKV(model, after, pool); d != "" {
			return mk(i, s, "model-mismatch:"+s.Op, "state-equals-model", fmt.Sprintf("after %s: %s", s.Short(), d))
		}
		// list views: every pool prefix returns exactly the model's keys under it
		for _, pfx := range pool {
			_, ents, err := c.L.State().KVSList(nil, pfx, nil)
			if err != nil {
				panic(err)
			}
			var got, want []string
			for _, e := range ents {
				got = append(got, e.Key)
			}
			for _, k := range simkit.SortedKeys(model.keys) {
				if strings.HasPrefix(k, pfx) {
					want = append(want, k)
				}
			}
			sort.Strings(got)
			if strings.Join(got, "\x00") != strings.Join(want, "\x00") {
				return mk(i, s, "model-mismatch:list", "list-equals-model", fmt.Sprintf("prefix %q: store %q model %q", pfx, got, want))
			}
		}
		// the same views through the real RPC endpoints on the leader's shell (KVS.Get / List / ListKeys with a
		// separator): a rotating sample of the pool per step
		if err := consul.VerifServeReads(c.Shell); err != nil {
			panic(err)
		}
		for n := 0; n < 3; n++ {
			pfx := pool[(i*3+n)%len(pool)]
			sep := []string{"/", "", "b", "a/"}[(i+n)%4]
			var want []string
			for _, k := range simkit.SortedKeys(model.keys) {
				if !strings.HasPrefix(k, pfx) {
					continue
				}
				// documented: with a separator, a key is listed only up to and including the first separator
				// after the prefix, and each such stem once
				item := k
				if sep != "" {
					if at := strings.Index(k[len(pfx):], sep); at >= 0 {
						item = k[:len(pfx)+at+len(sep)]
					}
				}
				if len(want) == 0 || want[len(want)-1] != item {
					want = append(want, item)
				}
			}
			var kl structs.IndexedKeyList
			if err := consul.VerifRead(c.Shell, "KVS.ListKeys", &structs.KeyListRequest{Datacenter: "dc1", Prefix: pfx, Seperator: sep}, &kl); err != nil {
				return mk(i, s, "model-mismatch:keys", "keys-equal-model", fmt.Sprintf("KVS.ListKeys(%q, %q): %v", pfx, sep, err))
			}
			if strings.Join(kl.Keys, "\x00") != strings.Join(want, "\x00") {
				return mk(i, s, "model-mismatch:keys", "keys-equal-model", fmt.Sprintf("KVS.ListKeys prefix %q separator %q: endpoint %q model %q", pfx, sep, kl.Keys, want))
			}
			var le structs.IndexedDirEntries
			if err := consul.VerifRead(c.Shell, "KVS.List", &structs.KeyRequest{Datacenter: "dc1", Key: pfx}, &le); err != nil {
				return mk(i, s, "model-mismatch:list", "list-equals-model", fmt.Sprintf("KVS.List(%q): %v", pfx, err))
			}
			var gotL, wantL []string
			for _, e := range le.Entries {
				gotL = append(gotL, e.Key)
			}
			for _, k := range simkit.SortedKeys(model.keys) {
				if strings.HasPrefix(k, pfx) {
					wantL = append(wantL, k)
				}
			}
			if strings.Join(gotL, "\x00") != strings.Join(wantL, "\x00") {
				return mk(i, s, "model-mismatch:list", "list-equals-model", fmt.Sprintf("KVS.List prefix %q: endpoint %q model %q", pfx, gotL, wantL))
			}
			if pfx != "" {
				var ge structs.IndexedDirEntries
				if err := consul.VerifRead(c.Shell, "KVS.Get", &structs.KeyRequest{Datacenter: "dc1", Key: pfx}, &ge); err != nil {
					return mk(i, s, "model-mismatch:get", "get-equals-model", fmt.Sprintf("KVS.Get(%q): %v", pfx, err))
				}
				st, inStore := after[pfx]
				if inStore != (len(ge.Entries) == 1) || (inStore && !(ge.Entries[0].Equal(&st) && ge.Entries[0].ModifyIndex == st.ModifyIndex && ge.Entries[0].CreateIndex == st.CreateIndex)) {
					return mk(i, s, "model-mismatch:get", "get-equals-model", fmt.Sprintf("KVS.Get(%q): endpoint %s, store (already compared with the model) %s present=%v", pfx, simkit.Canon(ge.Entries), simkit.Canon(st), inStore))
				}
			}
			r.Hit("probe.endpoint-reads")
		}
		// index laws, from the store's own before/after (independent of the model)
		if s.Op != "txn" && c.Failovers == fo {
			for _, k := range pool {
				b, bok := before[k]
				a, aok := after[k]
				if bok && aok {
					if a.CreateIndex != b.CreateIndex {
						return mk(i, s, "index-law:create-index-stable", "create-index-stable", fmt.Sprintf("key %q create index %d -> %d", k, b.CreateIndex, a.CreateIndex))
					}
					if b.Equal(&a) && a.ModifyIndex != b.ModifyIndex {
						return mk(i, s, "index-law:noop-keeps-modify-index", "noop-keeps-modify-index", fmt.Sprintf("key %q unchanged but modify index %d -> %d", k, b.ModifyIndex, a.ModifyIndex))
					}
					if !b.Equal(&a) && a.ModifyIndex <= b.ModifyIndex {
						return mk(i, s, "index-law:change-advances-modify-index", "change-advances-modify-index", fmt.Sprintf("key %q changed but modify index %d -> %d", k, b.ModifyIndex, a.ModifyIndex))
					}
				}
				if k == s.Key && (s.Op == "kv.lock" || s.Op == "kv.unlock") && len(out.Appended) == 1 {
					if ok, _ := out.Resp.(bool); ok && aok {
						var want uint64
						switch {
						case s.Op == "kv.unlock":
							want = b.LockIndex
						case !bok:
							want = 1
						case b.Session == s.Sess:
							want = b.LockIndex
						default:
							want = b.LockIndex + 1
						}
						if a.LockIndex != want {
							return mk(i, s, "index-law:lock-index", "lock-index-law", fmt.Sprintf("key %q lock index %d -> %d, want %d", k, b.LockIndex, a.LockIndex, want))
						}
					}
				}
			}
		}
		_ = modelBefore
	}
	r.Nontrivial = len(c.Log) >= 3
	return nil
}

func indexOf(s kvSnapshot, k string) uint64 {
	if e, ok := s[k]; ok {
		return e.ModifyIndex
	}
	return 0
}

func compareKVResult(want kvResult, got any) string {
	switch g := got.(type) {
	case nil:
		if want.err != "" || want.isBool {
			return fmt.Sprintf("store returned nil, model %+v", want)
		}
	case bool:
		if !want.isBool || want.b != g {
			return fmt.Sprintf("store returned %v, model %+v", g, want)
		}
	case error:
		if want.err == "" {
			return fmt.Sprintf("store returned error %q, model %+v", g.Error(), want)
		}
	default:
		return fmt.Sprintf("unexpected result type %T", got)
	}
	return ""
}

func diffKV(m *kvModel, got kvSnapshot, pool []string) string {
	for _, k := range pool {
		me, mok := m.keys[k]
		ge, gok := got[k]
		if mok != gok {
			return fmt.Sprintf("key %q: model exists=%v store exists=%v", k, mok, gok)
		}
		if !mok {
			continue
		}
		if !bytes.Equal(me.Val, ge.Value) || me.Flags != ge.Flags || me.Sess != ge.Session || me.Lock != ge.LockIndex ||
			me.Create != ge.CreateIndex || me.Modify != ge.ModifyIndex {
			return fmt.Sprintf("key %q: model {val=%q flags=%d sess=%s lock=%d create=%d modify=%d} store {val=%q flags=%d sess=%s lock=%d create=%d modify=%d}",
				k, me.Val, me.Flags, tail8(me.Sess), me.Lock, me.Create, me.Modify, ge.Value, ge.Flags, tail8(ge.Session), ge.LockIndex, ge.CreateIndex, ge.ModifyIndex)
		}
	}
	for k := range m.keys {
		found := false
		for _, pk := range pool {
			if pk == k {
				found = true
			}
		}
		if !found {
			return fmt.Sprintf("model key %q outside pool", k)
		}
	}
	return ""
}
