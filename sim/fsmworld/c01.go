//go:build verif

package fsmworld

import (
	"fmt"
	"math/rand/v2"
	"strings"
	"testing"
	"time"

	"github.com/hashicorp/consul/internal/verifsim/simkit"
)

// C01: replicas that apply the same committed log hold the same state and
// return the same results, whatever their wall clock, batching, snapshot /
// restart schedule.
//
// Phase 1 (leader bubble) fixes the committed log as BYTES plus the leader's
// results and canonical dumps. Phase 2 replays the bytes on audit followers,
// each in its own bubble with a different clock (offset of seconds to years,
// different advance schedule), with restarts from their own snapshots and an
// install-snapshot from the leader while live.
type C01 struct{}

func (C01) Decode(raw []byte) (simkit.Plan, error) { return DecodePlan(raw) }

// FullWeights enables every command family.
func FullWeights(rng *rand.Rand) Weights {
	w := Weights{Register: 20, Deregister: 8, KV: 14, Session: 8, Txn: 8, Reap: 2, Advance: 5, Snapshot: 0, Restart: 2, Peer: true, Kinds: true, Ext: 34}
	// swarm: switch some families off / change the mix
	for _, f := range []*int{&w.KV, &w.Session, &w.Txn, &w.Ext, &w.Deregister} {
		if simkit.Chance(rng, 15) {
			*f = 0
		}
	}
	if simkit.Chance(rng, 30) {
		w.Fault = 4
	}
	if simkit.Chance(rng, 25) {
		w.Peer = false
	}
	return w
}

func genFollowers(rng *rand.Rand, n int) []Follower {
	var fs []Follower
	for i := 0; i < n; i++ {
		f := Follower{
			ClockOffset: simkit.Pick(rng, []string{"0s", "1s", "37s", "1h", "24h", "8760h", "87600h"}),
			StepAdvance: simkit.Pick(rng, []string{"0s", "0s", "1ms", "1s", "20s", "17m", "2h"}),
			CheckEvery:  1 + rng.IntN(6),
		}
		// snapshot restarts / install-snapshot are C02's subject and stay off here: C01 is
		// about pure replay of the same bytes under different clocks and pacing
		fs = append(fs, f)
	}
	return fs
}

func (C01) Generate(rng *rand.Rand, tier string, runIdx uint64) simkit.Plan {
	u := DefaultUniverse()
	g := NewGen(rng, u, FullWeights(rng))
	n := 15 + rng.IntN(90)
	if tier == "thorough" && simkit.Chance(rng, 15) {
		n = 100 + rng.IntN(200)
	}
	p := &Plan{Cfg: Cfg{GCTTL: simkit.Pick(rng, []string{"15m", "30s"}), GCGran: "1s", Followers: genFollowers(rng, 1+rng.IntN(3))}}
	p.Cfg.Extra = map[string]string{"dualstack": simkit.Pick(rng, []string{"off", "off", "on"})}
	// the leader also serves reads, the audit replicas never do: serving a read must not change replicated state
	p.Cfg.Extra["reads"] = simkit.Pick(rng, []string{"off", "on"})
	for len(p.Steps) < n {
		if simkit.Chance(rng, 4) {
			p.Steps = append(p.Steps, g.Macro()...)
			continue
		}
		p.Steps = append(p.Steps, g.Next())
	}
	return p
}

// History is what phase 1 hands to phase 2: plain data only.
type History struct {
	Log      []Entry
	Results  map[uint64]string
	Dumps    []Dump // Dumps[i] = leader state after Log[i]
	SnapPos  int    // leader snapshot taken after SnapPos entries (0 = none)
	SnapData []byte
	Fatal    error
}

// runLeader executes the plan's steps on the leader side and records the history.
func runLeader(p *Plan, r *simkit.Run, wantDumps bool) *History {
	h := &History{Results: map[uint64]string{}}
	setDualStack(p.Cfg.Extra["dualstack"] == "on")
	c := NewCluster(r, parseDur(p.Cfg.GCTTL, 15*time.Minute), parseDur(p.Cfg.GCGran, 30*time.Second))
	defer c.Close()
	c.OnCommit = func(e Entry, _ any) {
		if wantDumps {
			h.Dumps = append(h.Dumps, c.L.Dump())
		}
	}
	var battery []Query
	if p.Cfg.Extra["reads"] == "on" {
		keys, sessions := planNames(p)
		battery = Battery(DefaultUniverse(), keys, sessions, BatteryExtra{})
	}
	for _, s := range p.Steps {
		r.Steps++
		r.Sig(s.Op)
		c.Do(s)
		if c.Fatal != nil {
			h.Fatal = c.Fatal
			break
		}
		if battery != nil {
			evalAll(battery, c.L.State())
			r.Hit("probe.leader-served-reads")
		}
		if s.Op == "leader.snapshot" {
			h.SnapPos, h.SnapData = int(c.SnapIndex), c.SnapBytes
		}
	}
	h.Log = c.Log
	h.Results = c.Results
	return h
}

func (w C01) Execute(t *testing.T, pl simkit.Plan, r *simkit.Run) (v *simkit.Violation) {
	p := pl.(*Plan)
	var h *History
	if err := simkit.Bubble(t, func() { h = runLeader(p, r, true) }); err != nil {
		return &simkit.Violation{Class: "harness-panic", Invariant: "no-escaped-panic", Detail: err.Error()}
	}
	if h.Fatal != nil {
		return &simkit.Violation{Property: "C01", Class: "panic", Invariant: "apply-does-not-panic", Step: len(h.Log), Detail: h.Fatal.Error()}
	}
	r.Nontrivial = len(h.Log) >= 3
	for fi, f := range p.Cfg.Followers {
		var fv *simkit.Violation
		if err := simkit.Bubble(t, func() { fv = auditFollower(p, h, fi, f, r) }); err != nil {
			return &simkit.Violation{Class: "harness-panic", Invariant: "no-escaped-panic", Detail: err.Error()}
		}
		if fv != nil {
			return fv
		}
	}
	return nil
}

func auditFollower(p *Plan, h *History, fi int, f Follower, r *simkit.Run) *simkit.Violation {
	setDualStack(p.Cfg.Extra["dualstack"] == "on")
	if d := parseDur(f.ClockOffset, 0); d > 0 {
		time.Sleep(d)
		r.AdvanceSim(d)
		r.Hit("fault.clock-skew")
	}
	adv := parseDur(f.StepAdvance, 0)
	rep := NewReplica(fmt.Sprintf("follower%d", fi), parseDur(p.Cfg.GCTTL, 15*time.Minute), parseDur(p.Cfg.GCGran, 30*time.Second))
	defer func() { rep.GC.SetEnabled(false) }()
	mk := func(i int, inv, culprit, detail string) *simkit.Violation {
		return &simkit.Violation{Property: "C01", Class: "replica-divergence", Invariant: inv, Step: i, Culprit: culprit, Detail: detail}
	}
	for i := 0; i < len(h.Log); i++ {
		e := h.Log[i]
		if f.InstallAt > 0 && i == f.InstallAt-1 && h.SnapPos > i && h.SnapData != nil {
			// lagging follower: the leader ships its snapshot, landing on a LIVE store
			if err := rep.Restore(h.SnapData); err != nil {
				return mk(i, "install-snapshot-succeeds", "install-snapshot", err.Error())
			}
			r.Hit("probe.install-snapshot-on-live-store")
			r.Eventf("f%d install-snapshot %d -> %d", fi, i, h.SnapPos)
			i = h.SnapPos - 1
			if d := rep.Dump().Diff(h.Dumps[i], nil); d != "" {
				return mk(i, "state-identical-after-install-snapshot", "install-snapshot:"+strings.Join(rep.Dump().DiffTables(h.Dumps[i]), ","),
					fmt.Sprintf("follower %d after install-snapshot at log position %d (A=follower, B=leader):\n%s", fi, h.SnapPos, d))
			}
			continue
		}
		if adv > 0 {
			time.Sleep(adv)
			r.AdvanceSim(adv)
		}
		resp, perr := rep.Apply(e)
		if perr != nil {
			return mk(i, "apply-does-not-panic", e.Desc, perr.Error())
		}
		got := CanonResult(resp)
		if got != h.Results[e.Index] {
			return mk(i, "result-identical", opOfDesc(e.Desc), fmt.Sprintf("entry %d (%s): leader returned %s, follower %d returned %s", e.Index, e.Desc,
				simkit.Trunc(h.Results[e.Index], 800), fi, simkit.Trunc(got, 800)))
		}
		if f.SnapEvery > 0 && (i+1)%f.SnapEvery == 0 {
			// restart from own snapshot
			b, err := rep.SnapshotBytes()
			if err != nil {
				return mk(i, "snapshot-succeeds", "snapshot", err.Error())
			}
			rep.GC.SetEnabled(false)
			rep = NewReplica(fmt.Sprintf("follower%d'", fi), parseDur(p.Cfg.GCTTL, 15*time.Minute), parseDur(p.Cfg.GCGran, 30*time.Second))
			if err := rep.Restore(b); err != nil {
				return mk(i, "restore-succeeds", "restore", err.Error())
			}
			r.Hit("probe.follower-restart-from-own-snapshot")
		}
		if (i+1)%max(1, f.CheckEvery) == 0 || i == len(h.Log)-1 {
			d := rep.Dump()
			if diff := d.Diff(h.Dumps[i], nil); diff != "" {
				return mk(i, "state-identical", opOfDesc(e.Desc)+":"+strings.Join(d.DiffTables(h.Dumps[i]), ","),
					fmt.Sprintf("after entry %d (%s), follower %d (clock offset %s) differs from the leader (A=follower, B=leader):\n%s", e.Index, e.Desc, fi, f.ClockOffset, diff))
			}
			r.Hit("probe.dump-compared")
		}
	}
	return nil
}

func opOfDesc(d string) string {
	if i := strings.IndexByte(d, ' '); i > 0 {
		return d[:i]
	}
	return d
}
