//go:build verif

package fsmworld

import (
	"context"
	"errors"
	"fmt"
	"math/rand/v2"
	"regexp"
	"sort"
	"strings"
	"sync"
	"testing"
	"testing/synctest"
	"time"

	"github.com/hashicorp/go-hclog"
	"github.com/hashicorp/serf/coordinate"

	"github.com/hashicorp/consul/acl"
	"github.com/hashicorp/consul/agent/consul"
	"github.com/hashicorp/consul/agent/structs"
	"github.com/hashicorp/consul/agent/structs/aclfilter"
	"github.com/hashicorp/consul/internal/verifsim/simkit"
	"github.com/hashicorp/consul/types"
)

// ACLWorld decides C08 and C09.
//
// A cluster (real FSM behind the simulated log) holds ACL policies, roles and
// tokens that a generated history keeps rewriting: overlapping exact and prefix
// rules for every resource kind, the same names in several policies, policies
// scoped to datacenters, roles, service and node identities, expiring tokens,
// links in permuted order. Two REAL resolvers share that history and keep their
// caches for the whole run: the server's (identities, policies and roles from
// its own store; parsed-policy and authorizer caches) and a client agent's
// (everything through ACL.TokenRead / PolicyResolve / RoleResolve RPCs, which
// may fail, and through TTL caches on the fake clock, with a down policy).
//
// C08: after every resolution the whole decision table of the returned
// authorizer (every kind x probe name x access level) equals a reference
// evaluation of the documented semantics over the rules the token's own
// policies, roles and identities currently carry - whatever was resolved before.
// For the client resolver equality is demanded when its caches cannot hold
// anything older than the last ACL write (TTLs elapsed, RPCs working).
//
// C09: a token past its expiration never resolves to an authorizer, in either
// resolver, cached or not; and every filterable response type built from
// generated entries (mixed readable and unreadable, any order and multiplicity,
// nested) comes back from aclfilter.Filter / FilterDirEnt holding exactly the
// entries the same authorizer allows, with the filtered flag set iff something
// was removed.
type ACLWorld struct{ Prop string }

func (ACLWorld) Decode(raw []byte) (simkit.Plan, error) { return DecodePlan(raw) }

var aclNames = []string{"", "a", "a/", "a/b", "ab", "web", "web-sidecar-proxy", "api", "n1", "n2", "zz"}
var aclKinds = []string{"key", "service", "node", "session", "agent", "event", "query"}

type aclRule struct {
	kind       string // key service node session agent event query | acl operator keyring
	prefix     bool
	name       string
	level      string
	intentions string // service rules only; "" = not specified
}

func (r aclRule) hcl() string {
	switch r.kind {
	case "acl", "operator", "keyring":
		return fmt.Sprintf("%s = %q", r.kind, r.level)
	}
	k := r.kind
	if r.prefix {
		k += "_prefix"
	}
	if r.intentions != "" {
		return fmt.Sprintf("%s %q { policy = %q intentions = %q }", k, r.name, r.level, r.intentions)
	}
	return fmt.Sprintf("%s %q { policy = %q }", k, r.name, r.level)
}

var aclRuleRe = regexp.MustCompile(`(\w+?)(_prefix)? "([^"]*)" \{ policy = "(\w+)"(?: intentions = "(\w+)")? \}`)
var aclSingleRe = regexp.MustCompile(`(?m)^(acl|operator|keyring) = "(\w+)"$`)

func parseACLRules(text string) []aclRule {
	var out []aclRule
	for _, m := range aclRuleRe.FindAllStringSubmatch(text, -1) {
		out = append(out, aclRule{kind: m[1], prefix: m[2] != "", name: m[3], level: m[4], intentions: m[5]})
	}
	for _, m := range aclSingleRe.FindAllStringSubmatch(text, -1) {
		out = append(out, aclRule{kind: m[1], level: m[2]})
	}
	return out
}

func genPolicyRules(rng *rand.Rand) string {
	seen := map[string]bool{}
	var lines []string
	for i, n := 0, 1+rng.IntN(6); i < n; i++ {
		r := aclRule{kind: simkit.Pick(rng, aclKinds), prefix: simkit.Chance(rng, 50), name: simkit.Pick(rng, aclNames),
			level: simkit.Pick(rng, []string{"read", "write", "deny", "write", "read"})}
		if r.kind == "key" && simkit.Chance(rng, 25) {
			r.level = "list"
		}
		if r.kind == "service" && simkit.Chance(rng, 40) {
			r.intentions = simkit.Pick(rng, []string{"read", "write", "deny"})
		}
		if simkit.Chance(rng, 10) {
			r = aclRule{kind: simkit.Pick(rng, []string{"acl", "operator", "keyring"}), level: simkit.Pick(rng, []string{"read", "write", "deny"})}
		}
		k := fmt.Sprint(r.kind, r.prefix, r.name)
		if seen[k] {
			continue
		}
		seen[k] = true
		lines = append(lines, r.hcl())
	}
	return strings.Join(lines, "\n")
}

func (w ACLWorld) Generate(rng *rand.Rand, tier string, runIdx uint64) simkit.Plan {
	p := &Plan{Cfg: Cfg{GCTTL: "15m", GCGran: "30s", Extra: map[string]string{}}}
	p.Cfg.Extra["default"] = simkit.Pick(rng, []string{"allow", "deny", "deny"})
	p.Cfg.Extra["down"] = simkit.Pick(rng, []string{"extend-cache", "extend-cache", "async-cache", "deny"})
	p.Cfg.Extra["ttl"] = simkit.Pick(rng, []string{"5s", "30s", "30s", "2m"})
	ids := &fedIDs{gen: map[string]int{}}
	n4 := func() int { return 1 + rng.IntN(4) }
	aclWrite := func() Step {
		switch simkit.Weighted(rng, []int{34, 6, 14, 4, 34, 8}) {
		case 0:
			id := n4()
			s := Step{Op: "acl.policy.set", ID: PolicyUUID(ids.cur("p", id)), Name: fmt.Sprintf("pol%d", id), Text: genPolicyRules(rng)}
			if simkit.Chance(rng, 15) {
				s.List = []string{simkit.Pick(rng, []string{"dc1", "dc2"})}
			}
			// a read-modify-write through the real endpoint: the client sends back the object it read, hash included
			s.Flag2 = simkit.Chance(rng, 35)
			return s
		case 1:
			return Step{Op: "acl.policy.delete", ID: PolicyUUID(ids.retire("p", n4()))}
		case 2:
			id := 1 + rng.IntN(3)
			s := Step{Op: "acl.role.set", ID: RoleUUID(ids.cur("r", id)), Name: fmt.Sprintf("role%d", id)}
			for i, n := 0, 1+rng.IntN(2); i < n; i++ {
				s.List = append(s.List, PolicyUUID(ids.cur("p", n4())))
			}
			if simkit.Chance(rng, 50) {
				s.Svc = simkit.Pick(rng, []string{"web", "web", "api"})
				s.Dest = simkit.Pick(rng, []string{"", "dc1", "dc1", "dc2", "dc2", "dc1,dc2"})
			}
			return s
		case 3:
			return Step{Op: "acl.role.delete", ID: RoleUUID(ids.retire("r", n4()))}
		case 4:
			id := n4()
			s := Step{Op: "acl.token.set", ID: TokenUUID(id), Text: SecretUUID(id)}
			for i, n := 0, rng.IntN(4); i < n; i++ {
				s.List = append(s.List, PolicyUUID(ids.cur("p", n4())))
			}
			if simkit.Chance(rng, 50) {
				s.List2 = []string{RoleUUID(ids.cur("r", 1+rng.IntN(3)))}
				if simkit.Chance(rng, 50) {
					s.List2 = append(s.List2, RoleUUID(ids.cur("r", 1+rng.IntN(3))))
				}
			}
			if simkit.Chance(rng, 20) {
				s.Svc = simkit.Pick(rng, []string{"web", "api"})
				s.Dest = simkit.Pick(rng, []string{"", "", "dc1", "dc2"})
			}
			if simkit.Chance(rng, 12) {
				s.Node = simkit.Pick(rng, []string{"n1", "n2"})
			}
			if simkit.Chance(rng, 25) {
				s.N = int64(10 * (1 + rng.IntN(30)))
			}
			return s
		default:
			return Step{Op: "acl.token.delete", ID: TokenUUID(n4())}
		}
	}
	secret := func() string {
		if simkit.Chance(rng, 6) {
			return SecretUUID(9) // never created
		}
		return SecretUUID(n4())
	}
	for i, n := 0, 4+rng.IntN(8); i < n; i++ {
		p.Steps = append(p.Steps, aclWrite())
	}
	// macro: two tokens sharing a role whose identity or policy overlaps with what only one of
	// them has through another role, resolved one after the other through the same resolver
	shared := func() {
		ra, rb := 1+rng.IntN(3), 1+rng.IntN(3)
		if ra == rb {
			rb = ra%3 + 1
		}
		svc := simkit.Pick(rng, []string{"web", "api"})
		dcs := []string{"", "dc1", "dc2", "dc1,dc2"}
		ta, tb := n4(), n4()
		if ta == tb {
			tb = ta%4 + 1
		}
		client := simkit.Chance(rng, 40)
		p.Steps = append(p.Steps,
			Step{Op: "acl.role.set", ID: RoleUUID(ids.cur("r", ra)), Name: fmt.Sprintf("role%d", ra), Svc: svc, Dest: simkit.Pick(rng, dcs), List: []string{PolicyUUID(ids.cur("p", n4()))}},
			Step{Op: "acl.role.set", ID: RoleUUID(ids.cur("r", rb)), Name: fmt.Sprintf("role%d", rb), Svc: svc, Dest: simkit.Pick(rng, dcs), List: []string{PolicyUUID(ids.cur("p", n4()))}},
			Step{Op: "acl.token.set", ID: TokenUUID(ta), Text: SecretUUID(ta), List2: []string{RoleUUID(ids.cur("r", rb)), RoleUUID(ids.cur("r", ra))}},
			Step{Op: "acl.token.set", ID: TokenUUID(tb), Text: SecretUUID(tb), List2: []string{RoleUUID(ids.cur("r", rb))}})
		if simkit.Chance(rng, 50) {
			p.Steps = append(p.Steps, Step{Op: "resolve", Text: SecretUUID(tb), Flag: client})
		}
		p.Steps = append(p.Steps, Step{Op: "resolve", Text: SecretUUID(ta), Flag: client}, Step{Op: "resolve", Text: SecretUUID(tb), Flag: client})
	}
	// macro: the token being resolved by a client changes on the servers between two calls of the resolution
	// (it loses a role); afterwards another token that shares the role it kept is resolved. Everything but the
	// first token has been at rest for longer than any cache lifetime.
	midChange := func() {
		ra, rb := 1+rng.IntN(3), 0
		rb = ra%3 + 1
		ta, tb := n4(), 0
		tb = ta%4 + 1
		p.Steps = append(p.Steps,
			Step{Op: "acl.role.set", ID: RoleUUID(ids.cur("r", ra)), Name: fmt.Sprintf("role%d", ra), Svc: "web", List: []string{PolicyUUID(ids.cur("p", n4()))}},
			Step{Op: "acl.role.set", ID: RoleUUID(ids.cur("r", rb)), Name: fmt.Sprintf("role%d", rb), Svc: "api"},
			Step{Op: "acl.token.set", ID: TokenUUID(ta), Text: SecretUUID(ta), List2: []string{RoleUUID(ids.cur("r", ra)), RoleUUID(ids.cur("r", rb))}},
			Step{Op: "acl.token.set", ID: TokenUUID(tb), Text: SecretUUID(tb), List2: []string{RoleUUID(ids.cur("r", ra))}},
			Step{Op: "advance", Dur: "5m"},
			Step{Op: "rpc.mid", N: int64(2 + rng.IntN(2))},
			Step{Op: "resolve", Text: SecretUUID(ta), Flag: true},
			Step{Op: "acl.token.set", ID: TokenUUID(ta), Text: SecretUUID(ta), List2: []string{RoleUUID(ids.cur("r", ra))}},
			Step{Op: "resolve", Text: SecretUUID(tb), Flag: true},
			Step{Op: "resolve", Text: SecretUUID(ta), Flag: true})
	}
	if w.Prop == "C09" && simkit.Chance(rng, 50) {
		// data for the endpoint probes: keys and nodes whose names the generated rules speak about
		for _, k := range epKeys {
			if simkit.Chance(rng, 70) {
				p.Steps = append(p.Steps, Step{Op: "kv.set", Key: k, Val: "v"})
			}
		}
		for k, nd := range epNodes {
			if simkit.Chance(rng, 70) {
				p.Steps = append(p.Steps, Step{Op: "register", Node: nd, NodeID: NodeUUID(20 + k), Addr: fmt.Sprintf("10.0.1.%d", k+1)})
			}
		}
		p.Cfg.Extra["epdata"] = "on"
	}
	n := 14 + rng.IntN(50)
	for len(p.Steps) < n {
		if p.Cfg.Extra["epdata"] == "on" && simkit.Chance(rng, 10) {
			p.Steps = append(p.Steps, Step{Op: "epfilter", Text: secret(), N: int64(rng.Uint32())})
			continue
		}
		if simkit.Chance(rng, 3) {
			shared()
			continue
		}
		if w.Prop == "C08" && simkit.Chance(rng, 3) {
			midChange()
			continue
		}
		if w.Prop == "C08" && simkit.Chance(rng, 4) {
			// outage: a token is resolved by the agent while the servers answer; everything rests for longer than
			// the cache lifetimes; then the servers stop answering and the agent resolves the token again
			t := secret()
			p.Steps = append(p.Steps,
				Step{Op: "advance", Dur: "5m"},
				Step{Op: "resolve", Text: t, Flag: true},
				Step{Op: "advance", Dur: simkit.Pick(rng, []string{"20s", "2m", "10m"})},
				Step{Op: "rpc.fail", N: int64(1 + rng.IntN(6))},
				Step{Op: "resolve", Text: t, Flag: true})
			continue
		}
		switch simkit.Weighted(rng, []int{30, 36, 12, 6, 16}) {
		case 0:
			p.Steps = append(p.Steps, aclWrite())
		case 1:
			p.Steps = append(p.Steps, Step{Op: "resolve", Text: secret(), Flag: simkit.Chance(rng, 45)})
		case 2:
			p.Steps = append(p.Steps, Step{Op: "advance", Dur: simkit.Pick(rng, []string{"1s", "4s", "11s", "40s", "3m"})})
		case 3:
			p.Steps = append(p.Steps, Step{Op: "rpc.fail", N: int64(1 + rng.IntN(4))})
		case 4:
			p.Steps = append(p.Steps, Step{Op: "filter", Text: secret(), N: int64(rng.Uint32()), Flag: simkit.Chance(rng, 30)})
		}
	}
	return p
}

func (w ACLWorld) Execute(t *testing.T, pl simkit.Plan, r *simkit.Run) (v *simkit.Violation) {
	if err := simkit.Bubble(t, func() { v = w.execute(pl.(*Plan), r) }); err != nil {
		return &simkit.Violation{Property: w.Prop, Class: "harness-panic", Invariant: "no-escaped-panic", Detail: err.Error()}
	}
	return v
}

type aclWorldState struct {
	w         ACLWorld
	r         *simkit.Run
	C         *Cluster
	client    *consul.ACLResolver
	defAllow  bool
	ttl       time.Duration
	down      string
	rpcFail   int
	rpcErrs   int // RPC failures during the current resolution
	rpcMu     sync.Mutex
	rpcFailed int      // failed RPCs not yet added to the run's counters
	shadow    *Replica // applies the same log and is never handed to a resolver: the reference reads it
	shadowAt  int
	lastACL   time.Time
	objTime   map[string]time.Time // when each policy, role and token (by id) was last written or deleted
	steps     []Step
	pc        int
	inResolve bool
	links     map[string]map[string]bool
	midAt     int // the ordinal of the client RPC before which the next ACL write of the plan is committed
	lastFault time.Time
	// lastGood: per token secret, the decision table of the client resolver's last resolution that was judged
	// fresh and found equal to the reference, and when that was
	lastGood map[string]goodTable
}

type goodTable struct {
	at    time.Time
	table []bool
}

// ---- reference semantics

var aclOrder = map[string]int{"": 0, "read": 1, "list": 2, "write": 3, "deny": 4}

// mergeLevel: when several policies give a rule for the same name, deny overrides write overrides list overrides read.
func mergeLevel(a, b string) string {
	if aclOrder[b] > aclOrder[a] {
		return b
	}
	return a
}

func enforce(level, need string) bool {
	switch level {
	case "write":
		return true
	case "list":
		return need == "read" || need == "list"
	case "read":
		return need == "read"
	}
	return false
}

// refDecide: exact rule for the name wins, otherwise the longest matching prefix rule, otherwise the default policy.
func refDecide(rules []aclRule, kind, name, need string, defAllow bool) bool {
	exact, best, bestLevel := "", -1, ""
	for _, ru := range rules {
		if ru.kind != kind {
			continue
		}
		switch {
		case kind == "acl" || kind == "operator" || kind == "keyring":
			exact = mergeLevel(exact, ru.level)
		case !ru.prefix && ru.name == name:
			exact = mergeLevel(exact, ru.level)
		case ru.prefix && strings.HasPrefix(name, ru.name):
			if len(ru.name) > best {
				best, bestLevel = len(ru.name), ru.level
			} else if len(ru.name) == best {
				bestLevel = mergeLevel(bestLevel, ru.level)
			}
		}
	}
	if exact != "" {
		return enforce(exact, need)
	}
	if best >= 0 {
		return enforce(bestLevel, need)
	}
	if kind == "acl" {
		return false // the default policy never grants ACL management (documented: only a rule or a management token does)
	}
	return defAllow
}

// refIntention: access to the intentions of a service name follows the service rules: the
// explicit intentions levels of the rules for the name merge by precedence on their own; when
// none is given, service read or write grants intention read and service deny denies.
func refIntention(rules []aclRule, name, need string, defAllow bool) bool {
	type acc struct{ pol, ixn string }
	var exact *acc
	prefixes := map[string]*acc{}
	for _, ru := range rules {
		if ru.kind != "service" {
			continue
		}
		var a *acc
		switch {
		case !ru.prefix && ru.name == name:
			if exact == nil {
				exact = &acc{}
			}
			a = exact
		case ru.prefix && strings.HasPrefix(name, ru.name):
			if prefixes[ru.name] == nil {
				prefixes[ru.name] = &acc{}
			}
			a = prefixes[ru.name]
		default:
			continue
		}
		a.pol = mergeLevel(a.pol, ru.level)
		if ru.intentions != "" {
			a.ixn = mergeLevel(a.ixn, ru.intentions)
		}
	}
	eff := func(a *acc) bool {
		level := a.ixn
		if level == "" {
			level = "deny"
			if a.pol == "read" || a.pol == "write" {
				level = "read"
			}
		}
		return enforce(level, need)
	}
	if exact != nil {
		return eff(exact)
	}
	best := ""
	var bestAcc *acc
	for p, a := range prefixes {
		if bestAcc == nil || len(p) > len(best) {
			best, bestAcc = p, a
		}
	}
	if bestAcc != nil {
		return eff(bestAcc)
	}
	return defAllow
}

// refReadAll: "may read every service (node)": no name whatsoever is refused, i.e. no rule for
// the kind - exact or prefix, after merging rules for the same name - denies read, and names that
// match no rule are readable (the rule for the empty prefix, else the default policy).
func refReadAll(rules []aclRule, kind string, defAllow bool) bool {
	exact, prefix := map[string]string{}, map[string]string{}
	for _, ru := range rules {
		if ru.kind != kind {
			continue
		}
		if ru.prefix {
			prefix[ru.name] = mergeLevel(prefix[ru.name], ru.level)
		} else {
			exact[ru.name] = mergeLevel(exact[ru.name], ru.level)
		}
	}
	for _, l := range exact {
		if !enforce(l, "read") {
			return false
		}
	}
	for _, l := range prefix {
		if !enforce(l, "read") {
			return false
		}
	}
	if l, ok := prefix[""]; ok {
		return enforce(l, "read")
	}
	return defAllow
}

type aclProbe struct{ kind, name, need string }

func aclProbes() []aclProbe {
	var out []aclProbe
	for _, k := range aclKinds {
		for _, n := range aclNames {
			out = append(out, aclProbe{k, n, "read"}, aclProbe{k, n, "write"})
			if k == "key" {
				out = append(out, aclProbe{k, n, "list"})
			}
		}
	}
	for _, k := range []string{"acl", "operator", "keyring"} {
		out = append(out, aclProbe{k, "", "read"}, aclProbe{k, "", "write"})
	}
	for _, n := range aclNames {
		if n != "" {
			out = append(out, aclProbe{"intention", n, "read"}, aclProbe{"intention", n, "write"})
		}
	}
	out = append(out, aclProbe{"service", "", "readall"}, aclProbe{"node", "", "readall"})
	return out
}

func askAuthorizer(a acl.Authorizer, p aclProbe) bool {
	var d acl.EnforcementDecision
	switch p.kind + ":" + p.need {
	case "key:read":
		d = a.KeyRead(p.name, nil)
	case "key:write":
		d = a.KeyWrite(p.name, nil)
	case "key:list":
		d = a.KeyList(p.name, nil)
	case "service:read":
		d = a.ServiceRead(p.name, nil)
	case "service:write":
		d = a.ServiceWrite(p.name, nil)
	case "node:read":
		d = a.NodeRead(p.name, nil)
	case "node:write":
		d = a.NodeWrite(p.name, nil)
	case "session:read":
		d = a.SessionRead(p.name, nil)
	case "session:write":
		d = a.SessionWrite(p.name, nil)
	case "agent:read":
		d = a.AgentRead(p.name, nil)
	case "agent:write":
		d = a.AgentWrite(p.name, nil)
	case "event:read":
		d = a.EventRead(p.name, nil)
	case "event:write":
		d = a.EventWrite(p.name, nil)
	case "query:read":
		d = a.PreparedQueryRead(p.name, nil)
	case "query:write":
		d = a.PreparedQueryWrite(p.name, nil)
	case "acl:read":
		d = a.ACLRead(nil)
	case "acl:write":
		d = a.ACLWrite(nil)
	case "operator:read":
		d = a.OperatorRead(nil)
	case "operator:write":
		d = a.OperatorWrite(nil)
	case "keyring:read":
		d = a.KeyringRead(nil)
	case "keyring:write":
		d = a.KeyringWrite(nil)
	case "service:readall":
		d = a.ServiceReadAll(nil)
	case "node:readall":
		d = a.NodeReadAll(nil)
	case "intention:read":
		d = a.IntentionRead(p.name, nil)
	case "intention:write":
		d = a.IntentionWrite(p.name, nil)
	default:
		panic("probe " + p.kind + ":" + p.need)
	}
	return d == acl.Allow
}

// effectiveRules: the rules the token's own policies, roles and identities carry right now.
func (s *aclWorldState) syncShadow() {
	for ; s.shadowAt < len(s.C.Log); s.shadowAt++ {
		if _, perr := s.shadow.Apply(s.C.Log[s.shadowAt]); perr != nil {
			panic(perr)
		}
	}
}

func (s *aclWorldState) effectiveRules(tok *structs.ACLToken, dc string) (rules []aclRule, desc []string) {
	// the raw rows of the shadow replica: no store accessor (they fix links up, which is code under test)
	policies, roles := map[string]*structs.ACLPolicy{}, map[string]*structs.ACLRole{}
	s.shadow.State().WalkAllTables(func(table string, item interface{}) bool {
		switch table {
		case "acl-policies":
			policies[item.(*structs.ACLPolicy).ID] = item.(*structs.ACLPolicy)
		case "acl-roles":
			roles[item.(*structs.ACLRole).ID] = item.(*structs.ACLRole)
		case "acl-tokens":
			if t := item.(*structs.ACLToken); t.AccessorID == tok.AccessorID {
				tok = t
			}
		}
		return true
	})
	addPolicy := func(id, via string) {
		p := policies[id]
		if p == nil {
			return
		}
		if len(p.Datacenters) > 0 {
			ok := false
			for _, d := range p.Datacenters {
				ok = ok || d == dc
			}
			if !ok {
				desc = append(desc, fmt.Sprintf("%s(%s) not scoped to %s", p.Name, via, dc))
				return
			}
		}
		desc = append(desc, fmt.Sprintf("%s(%s): %s", p.Name, via, strings.ReplaceAll(p.Rules, "\n", "; ")))
		rules = append(rules, parseACLRules(p.Rules)...)
	}
	svcIdent := func(si *structs.ACLServiceIdentity, via string) {
		if len(si.Datacenters) > 0 {
			ok := false
			for _, d := range si.Datacenters {
				ok = ok || d == dc
			}
			if !ok {
				desc = append(desc, fmt.Sprintf("service identity %s(%s) scoped to %v", si.ServiceName, via, si.Datacenters))
				return
			}
		}
		name := si.ServiceName
		desc = append(desc, "service identity "+name+"("+via+")")
		rules = append(rules, aclRule{kind: "service", prefix: false, name: name, level: "write"}, aclRule{kind: "service", prefix: false, name: name + "-sidecar-proxy", level: "write"},
			aclRule{kind: "service", prefix: true, name: "", level: "read"}, aclRule{kind: "node", prefix: true, name: "", level: "read"})
	}
	for _, l := range tok.Policies {
		addPolicy(l.ID, "token")
	}
	for _, si := range tok.ServiceIdentities {
		svcIdent(si, "token")
	}
	for _, ni := range tok.NodeIdentities {
		if ni.Datacenter == dc {
			desc = append(desc, "node identity "+ni.NodeName)
			rules = append(rules, aclRule{kind: "node", prefix: false, name: ni.NodeName, level: "write"}, aclRule{kind: "service", prefix: true, name: "", level: "read"})
		}
	}
	for _, rl := range tok.Roles {
		role := roles[rl.ID]
		if role == nil {
			continue
		}
		for _, l := range role.Policies {
			addPolicy(l.ID, role.Name)
		}
		for _, si := range role.ServiceIdentities {
			svcIdent(si, role.Name)
		}
	}
	return rules, desc
}

func (s *aclWorldState) clientRPC(_ context.Context, method string, args, reply interface{}) error {
	// (with the async-cache down policy the resolver refreshes in background goroutines: this may run
	// beside the scheduler until its next synctest.Wait, so it only touches fields under the mutex)
	s.rpcMu.Lock()
	defer s.rpcMu.Unlock()
	if s.rpcFail > 0 {
		s.rpcFail--
		s.rpcErrs++
		s.rpcFailed++
		s.lastFault = time.Now() // extend-cache re-dates what it had: stale entries live one more TTL
		return errors.New("rpc error making call: simulated: no servers reachable")
	}
	if s.midAt > 0 && s.inResolve && s.down != "async-cache" {
		if s.midAt--; s.midAt == 0 && s.pc+1 < len(s.steps) && strings.HasPrefix(s.steps[s.pc+1].Op, "acl.") {
			// the servers commit an ACL write between two calls of this resolution
			s.pc++
			s.r.Eventf("  ACL write between two calls of the resolution: %s", s.steps[s.pc].Short())
			s.touch(s.steps[s.pc])
			s.C.DoInside(s.steps[s.pc])
			s.lastACL = time.Now()
			s.r.Hit("fault.acl-write-during-resolution")
		}
	}
	// the request and the reply cross the wire
	var err error
	switch method {
	case "ACL.TokenRead":
		var a structs.ACLTokenGetRequest
		wire(args, &a)
		var out structs.ACLTokenResponse
		if err = consul.VerifACLEndpoint(s.C.Shell, method, &a, &out); err == nil {
			wire(&out, reply)
		}
	case "ACL.PolicyResolve":
		var a structs.ACLPolicyBatchGetRequest
		wire(args, &a)
		var out structs.ACLPolicyBatchResponse
		if err = consul.VerifACLEndpoint(s.C.Shell, method, &a, &out); err == nil {
			wire(&out, reply)
		}
	case "ACL.RoleResolve":
		var a structs.ACLRoleBatchGetRequest
		wire(args, &a)
		var out structs.ACLRoleBatchResponse
		if err = consul.VerifACLEndpoint(s.C.Shell, method, &a, &out); err == nil {
			wire(&out, reply)
		}
	default:
		panic("client resolver made an RPC that is not served: " + method)
	}
	if err != nil {
		// errors cross the wire as strings
		return errors.New("rpc error making call: " + err.Error())
	}
	return nil
}

// resolve runs one ResolveToken on the chosen resolver (scheduler goroutine; background refreshes finish before it returns).
func (s *aclWorldState) resolve(secret string, client bool) (res acl.Authorizer, err error) {
	s.rpcErrs = 0
	s.inResolve = true
	defer func() { s.inResolve = false }()
	s.C.Main(func() {
		if client {
			r, e := s.client.ResolveToken(secret)
			res, err = r.Authorizer, e
		} else {
			r, e := s.C.Shell.ACLResolver.ResolveToken(secret)
			res, err = r.Authorizer, e
		}
	})
	synctest.Wait()
	s.rpcMu.Lock()
	s.r.Add("fault.acl-rpc-failed", int64(s.rpcFailed))
	s.rpcFailed = 0
	s.rpcMu.Unlock()
	return res, err
}

func (s *aclWorldState) judgeResolve(i int, st Step) *simkit.Violation {
	mk := func(prop, class, inv, detail string) *simkit.Violation {
		if prop != s.w.Prop {
			return nil // the other property's business
		}
		return &simkit.Violation{Property: prop, Class: class, Invariant: inv, Step: i, Culprit: map[bool]string{true: "client-resolver", false: "server-resolver"}[st.Flag], Detail: detail}
	}
	s.syncShadow()
	_, tok, _ := s.shadow.State().ACLTokenGetBySecret(nil, st.Text, nil)
	now := time.Now()
	authz, err := s.resolve(st.Text, st.Flag)
	s.syncShadow()
	faulted := s.rpcErrs > 0
	s.r.Eventf("resolve %s client=%v -> err=%v faultedRPCs=%d", st.Text[len(st.Text)-2:], st.Flag, err, s.rpcErrs)
	s.r.Sig(fmt.Sprintf("resolve:%v:%v:%v", st.Flag, err != nil, tok != nil))
	s.r.Hit("probe.resolutions")
	// C09: expired tokens never authorize
	if tok != nil && tok.IsExpired(now) {
		s.r.Hit("probe.expired-token-resolved")
		if err == nil && !(faulted && st.Flag) {
			return mk("C09", "expired-token-honoured", "expired-token-never-authorizes",
				fmt.Sprintf("token %s expired at %s, it is %s, and ResolveToken returned an authorizer", tok.AccessorID, tok.ExpirationTime.UTC().Format(time.RFC3339), now.UTC().Format(time.RFC3339)))
		}
		if err == nil {
			// primary unreachable and nothing usable cached: the down policy decides, as documented
			return nil
		}
		if !acl.IsErrNotFound(err) && !faulted {
			return mk("C09", "expired-token-honoured", "expired-token-never-authorizes", "expired token resolved to an unexpected error: "+err.Error())
		}
		return nil
	}
	if tok == nil {
		if err == nil && !faulted && !st.Flag {
			return mk("C08", "decision-mismatch", "unknown-token-is-not-found", "a secret no token carries resolved to an authorizer on the server")
		}
		return nil
	}
	if err != nil {
		if !st.Flag {
			return mk("C08", "decision-mismatch", "existing-token-resolves", fmt.Sprintf("token %s exists and is not expired but the server resolver returned: %v", tok.AccessorID, err))
		}
		return nil
	}
	// C08, during an outage: with the extend-cache down policy an agent that cannot reach the servers keeps
	// deciding from what it has cached, however old. A token that was resolved while the servers answered, and
	// none of whose objects was written since, therefore decides exactly as it did then (the client caches are
	// far larger than this universe: nothing is evicted).
	if st.Flag && faulted && s.down == "extend-cache" {
		if lg, ok := s.lastGood[st.Text]; ok {
			quiet := true
			for _, id := range s.reachable(tok) {
				if t, ok := s.objTime[id]; ok && !t.Before(lg.at) {
					quiet = false
				}
			}
			if quiet {
				s.r.Hit("probe.outage-decisions-compared")
				for k, p := range aclProbes() {
					if got := askAuthorizer(authz, p); got != lg.table[k] {
						return mk("C08", "decision-mismatch", "outage-keeps-the-decisions-of-the-cached-policies",
							fmt.Sprintf("token %s, down policy extend-cache, %d RPCs of this resolution failed, nothing the token is built from was written since its last good resolution (%s ago): %s %q %s is now allowed=%v, it was %v",
								tok.AccessorID, s.rpcErrs, now.Sub(lg.at), p.kind, p.name, p.need, got, lg.table[k]))
					}
				}
			}
		}
	}
	// C08: the decision table
	if st.Flag {
		// what the caches may still hold of older versions: nothing, for objects at rest for longer than the
		// cache lifetime - the token's own objects count, not the rest of the ACL tables
		atRest := true
		for _, id := range s.reachable(tok) {
			if t, ok := s.objTime[id]; ok && now.Sub(t) <= s.ttl {
				atRest = false
			}
		}
		if atRest && now.Sub(s.lastACL) <= s.ttl {
			s.r.Hit("probe.client-resolution-judged-beside-recent-writes")
		}
		fresh := !faulted && s.down != "async-cache" && atRest && now.Sub(s.lastFault) > s.ttl
		if !fresh {
			s.r.Hit("probe.client-resolution-possibly-stale")
			return nil
		}
	}
	rules, desc := s.effectiveRules(tok, "dc1")
	s.r.Hit("probe.decision-tables-compared")
	var table []bool
	defer func() {
		if st.Flag && len(table) == len(aclProbes()) {
			if s.lastGood == nil {
				s.lastGood = map[string]goodTable{}
			}
			s.lastGood[st.Text] = goodTable{at: now, table: table}
		}
	}()
	for _, p := range aclProbes() {
		want := refDecide(rules, p.kind, p.name, p.need, s.defAllow)
		if p.kind == "intention" {
			want = refIntention(rules, p.name, p.need, s.defAllow)
		}
		if p.need == "readall" {
			want = refReadAll(rules, p.kind, s.defAllow)
		}
		got := askAuthorizer(authz, p)
		table = append(table, got)
		if got != want {
			return mk("C08", "decision-mismatch", "decision-equals-reference-semantics",
				fmt.Sprintf("token %s: %s %q %s is allowed=%v, the reference semantics say %v (default policy allow=%v)\n  rules in effect:\n    %s",
					tok.AccessorID, p.kind, p.name, p.need, got, want, s.defAllow, strings.Join(desc, "\n    ")))
		}
	}
	return nil
}

// ---- C09: filtering

func (s *aclWorldState) judgeFilter(i int, st Step) *simkit.Violation {
	if s.w.Prop != "C09" {
		return nil
	}
	authz, err := s.resolve(st.Text, st.Flag)
	if err != nil || authz == nil {
		return nil
	}
	rng := simkit.NewRNG(uint64(st.N) + 7)
	mk := func(what, detail string) *simkit.Violation {
		return &simkit.Violation{Property: "C09", Class: "filter-mismatch", Invariant: "response-holds-exactly-the-readable-entries", Step: i, Culprit: what, Detail: what + ": " + detail}
	}
	nodes := []string{"n1", "n2", "a", "ab", "zz", "web"}
	svcs := []string{"web", "api", "a", "a/b", "web-sidecar-proxy", "zz"}
	pickN := func() string { return simkit.Pick(rng, nodes) }
	pickS := func() string { return simkit.Pick(rng, svcs) }
	cnt := func() int { return rng.IntN(7) }
	nodeOK := func(n string) bool { return authz.NodeRead(n, nil) == acl.Allow }
	svcOK := func(n string) bool { return n == "" || authz.ServiceRead(n, nil) == acl.Allow }
	flt := aclfilter.New(authz, hclog.NewNullLogger())
	s.r.Hit("probe.filter-batteries")
	check := func(what string, in, out []string, keep func(string) bool, flag bool) *simkit.Violation {
		var want []string
		for _, x := range in {
			if keep(x) {
				want = append(want, x)
			}
		}
		if fmt.Sprint(out) != fmt.Sprint(want) {
			return mk(what, fmt.Sprintf("entries %v filtered to %v, the authorizer allows exactly %v", in, out, want))
		}
		if flag != (len(want) != len(in)) {
			return mk(what, fmt.Sprintf("entries %v filtered to %v but the filtered flag is %v", in, out, flag))
		}
		s.r.Hit("probe.filter-cases")
		return nil
	}
	// again: the endpoints evaluate a blocking query several times into the same reply; an evaluation that
	// removes nothing must not report filtering because an earlier one did
	again := func(what string, v any, flag func() bool) *simkit.Violation {
		flt.Filter(v)
		if flag() {
			return mk(what, "filtering the already filtered response again removes nothing, yet the filtered flag is still set")
		}
		return nil
	}
	// IndexedNodes
	{
		var v structs.IndexedNodes
		var in []string
		for k, n := 0, cnt(); k < n; k++ {
			name := pickN()
			in = append(in, name)
			v.Nodes = append(v.Nodes, &structs.Node{Node: name})
		}
		flt.Filter(&v)
		var out []string
		for _, x := range v.Nodes {
			out = append(out, x.Node)
		}
		if vi := check("IndexedNodes", in, out, nodeOK, v.ResultsFilteredByACLs); vi != nil {
			return vi
		}
		if vi := again("IndexedNodes", &v, func() bool { return v.ResultsFilteredByACLs }); vi != nil {
			return vi
		}
	}
	pair := func(x string) (string, string) { p := strings.SplitN(x, "|", 2); return p[0], p[1] }
	pairOK := func(x string) bool { n, sv := pair(x); return nodeOK(n) && svcOK(sv) }
	// IndexedServiceNodes
	{
		var v structs.IndexedServiceNodes
		var in []string
		for k, n := 0, cnt(); k < n; k++ {
			nn, sn := pickN(), pickS()
			in = append(in, nn+"|"+sn)
			v.ServiceNodes = append(v.ServiceNodes, &structs.ServiceNode{Node: nn, ServiceName: sn, ServiceID: sn})
		}
		flt.Filter(&v)
		var out []string
		for _, x := range v.ServiceNodes {
			out = append(out, x.Node+"|"+x.ServiceName)
		}
		if vi := check("IndexedServiceNodes", in, out, pairOK, v.ResultsFilteredByACLs); vi != nil {
			return vi
		}
		if vi := again("IndexedServiceNodes", &v, func() bool { return v.ResultsFilteredByACLs }); vi != nil {
			return vi
		}
	}
	// IndexedHealthChecks (node checks have no service)
	{
		var v structs.IndexedHealthChecks
		var in []string
		for k, n := 0, cnt(); k < n; k++ {
			nn, sn := pickN(), pickS()
			if simkit.Chance(rng, 30) {
				sn = ""
			}
			in = append(in, nn+"|"+sn)
			v.HealthChecks = append(v.HealthChecks, &structs.HealthCheck{Node: nn, CheckID: types.CheckID(fmt.Sprint("c", k)), ServiceName: sn, ServiceID: sn})
		}
		flt.Filter(&v)
		var out []string
		for _, x := range v.HealthChecks {
			out = append(out, x.Node+"|"+x.ServiceName)
		}
		if vi := check("IndexedHealthChecks", in, out, pairOK, v.ResultsFilteredByACLs); vi != nil {
			return vi
		}
		if vi := again("IndexedHealthChecks", &v, func() bool { return v.ResultsFilteredByACLs }); vi != nil {
			return vi
		}
	}
	// IndexedCheckServiceNodes
	{
		var v structs.IndexedCheckServiceNodes
		var in []string
		for k, n := 0, cnt(); k < n; k++ {
			nn, sn := pickN(), pickS()
			in = append(in, nn+"|"+sn)
			v.Nodes = append(v.Nodes, structs.CheckServiceNode{Node: &structs.Node{Node: nn}, Service: &structs.NodeService{ID: sn, Service: sn},
				Checks: structs.HealthChecks{{Node: nn, CheckID: "c", ServiceName: sn}}})
		}
		flt.Filter(&v)
		var out []string
		for _, x := range v.Nodes {
			out = append(out, x.Node.Node+"|"+x.Service.Service)
		}
		if vi := check("IndexedCheckServiceNodes", in, out, pairOK, v.ResultsFilteredByACLs); vi != nil {
			return vi
		}
		if vi := again("IndexedCheckServiceNodes", &v, func() bool { return v.ResultsFilteredByACLs }); vi != nil {
			return vi
		}
	}
	// IndexedNodeServiceList: an unreadable node empties the answer, otherwise unreadable services go
	{
		var v structs.IndexedNodeServiceList
		nn := pickN()
		v.NodeServices.Node = &structs.Node{Node: nn}
		var in []string
		for k, n := 0, cnt(); k < n; k++ {
			sn := pickS()
			in = append(in, sn)
			v.NodeServices.Services = append(v.NodeServices.Services, &structs.NodeService{ID: fmt.Sprint(sn, k), Service: sn})
		}
		flt.Filter(&v)
		var out []string
		for _, x := range v.NodeServices.Services {
			out = append(out, x.Service)
		}
		if !nodeOK(nn) {
			if v.NodeServices.Node != nil || len(out) != 0 || !v.ResultsFilteredByACLs {
				return mk("IndexedNodeServiceList", fmt.Sprintf("node %s is not readable but the answer still holds node=%v services=%v flag=%v", nn, v.NodeServices.Node != nil, out, v.ResultsFilteredByACLs))
			}
		} else if vi := check("IndexedNodeServiceList", in, out, svcOK, v.ResultsFilteredByACLs); vi != nil {
			return vi
		}
	}
	// IndexedNodeDump: unreadable nodes go; inside a readable node unreadable services and checks go
	{
		var v structs.IndexedNodeDump
		var in, want []string
		for k, n := 0, cnt(); k < n; k++ {
			nn := pickN()
			info := &structs.NodeInfo{Node: nn}
			desc, wantDesc := nn+"{", nn+"{"
			for j, m := 0, rng.IntN(4); j < m; j++ {
				sn := pickS()
				info.Services = append(info.Services, &structs.NodeService{ID: fmt.Sprint(sn, j), Service: sn})
				desc += "s:" + sn + " "
				if svcOK(sn) {
					wantDesc += "s:" + sn + " "
				}
			}
			for j, m := 0, rng.IntN(4); j < m; j++ {
				sn := pickS()
				if simkit.Chance(rng, 40) {
					sn = ""
				}
				info.Checks = append(info.Checks, &structs.HealthCheck{Node: nn, CheckID: types.CheckID(fmt.Sprint("c", j)), ServiceName: sn})
				desc += "c:" + sn + " "
				if svcOK(sn) {
					wantDesc += "c:" + sn + " "
				}
			}
			in = append(in, desc+"}")
			if nodeOK(nn) {
				want = append(want, wantDesc+"}")
			}
			v.Dump = append(v.Dump, info)
		}
		flt.Filter(&v)
		var out []string
		for _, info := range v.Dump {
			d := info.Node + "{"
			for _, sv := range info.Services {
				d += "s:" + sv.Service + " "
			}
			for _, c := range info.Checks {
				d += "c:" + c.ServiceName + " "
			}
			out = append(out, d+"}")
		}
		if fmt.Sprint(out) != fmt.Sprint(want) {
			return mk("IndexedNodeDump", fmt.Sprintf("dump %v filtered to %v, the authorizer allows exactly %v", in, out, want))
		}
		if v.ResultsFilteredByACLs != (fmt.Sprint(in) != fmt.Sprint(want)) {
			return mk("IndexedNodeDump", fmt.Sprintf("dump %v filtered to %v but the filtered flag is %v", in, out, v.ResultsFilteredByACLs))
		}
		s.r.Hit("probe.filter-cases")
		if vi := again("IndexedNodeDump", &v, func() bool { return v.ResultsFilteredByACLs }); vi != nil {
			return vi
		}
	}
	// DatacenterIndexedCheckServiceNodes: per datacenter; emptied datacenters go; one flag for all
	{
		var v structs.DatacenterIndexedCheckServiceNodes
		v.DatacenterNodes = map[string]structs.CheckServiceNodes{}
		want := map[string][]string{}
		removed := false
		for d, nd := 0, 1+rng.IntN(5); d < nd; d++ {
			dc := fmt.Sprint("dc", d)
			for k, n := 0, cnt(); k < n; k++ {
				nn, sn := pickN(), pickS()
				v.DatacenterNodes[dc] = append(v.DatacenterNodes[dc], structs.CheckServiceNode{Node: &structs.Node{Node: nn}, Service: &structs.NodeService{ID: sn, Service: sn}})
				if pairOK(nn + "|" + sn) {
					want[dc] = append(want[dc], nn+"|"+sn)
				} else {
					removed = true
				}
			}
		}
		flt.Filter(&v)
		got := map[string][]string{}
		for dc, nodes := range v.DatacenterNodes {
			for _, x := range nodes {
				got[dc] = append(got[dc], x.Node.Node+"|"+x.Service.Service)
			}
			if len(nodes) == 0 {
				return mk("DatacenterIndexedCheckServiceNodes", "datacenter "+dc+" is listed with no entries left")
			}
		}
		if fmt.Sprint(got) != fmt.Sprint(want) {
			return mk("DatacenterIndexedCheckServiceNodes", fmt.Sprintf("filtered to %v, the authorizer allows exactly %v", got, want))
		}
		if v.ResultsFilteredByACLs != removed {
			return mk("DatacenterIndexedCheckServiceNodes", fmt.Sprintf("entries removed=%v but the filtered flag is %v (kept %v)", removed, v.ResultsFilteredByACLs, got))
		}
		s.r.Hit("probe.filter-cases")
		if vi := again("DatacenterIndexedCheckServiceNodes", &v, func() bool { return v.ResultsFilteredByACLs }); vi != nil {
			return vi
		}
	}
	// IndexedIntentions: read access on either end shows the intention; a source that lives in a peer is
	// not a name of this cluster, so only the destination end counts for it
	{
		var v structs.IndexedIntentions
		var in []string
		for k, n := 0, cnt(); k < n; k++ {
			src, dst, peer := pickS(), pickS(), ""
			if rng.IntN(3) == 0 {
				peer = "east"
			}
			in = append(in, peer+"/"+src+">"+dst)
			v.Intentions = append(v.Intentions, &structs.Intention{ID: fmt.Sprint("i", k), SourceNS: "default", SourceName: src, SourcePeer: peer, DestinationNS: "default", DestinationName: dst, Action: structs.IntentionActionAllow})
		}
		flt.Filter(&v)
		var out []string
		for _, x := range v.Intentions {
			out = append(out, x.SourcePeer+"/"+x.SourceName+">"+x.DestinationName)
		}
		ixnOK := func(e string) bool {
			parts := strings.SplitN(e, "/", 2)
			sd := strings.SplitN(parts[1], ">", 2)
			if authz.IntentionRead(sd[1], nil) == acl.Allow {
				return true
			}
			return parts[0] == "" && authz.IntentionRead(sd[0], nil) == acl.Allow
		}
		if vi := check("IndexedIntentions", in, out, ixnOK, v.ResultsFilteredByACLs); vi != nil {
			return vi
		}
		if vi := again("IndexedIntentions", &v, func() bool { return v.ResultsFilteredByACLs }); vi != nil {
			return vi
		}
	}
	// ACL tokens: unreadable ones go, secrets are hidden from readers without acl:write - in the
	// answer, never in the objects the answer was built from (they are the stored tokens)
	{
		var toks structs.ACLTokens
		var originals []*structs.ACLToken
		for k, n := 0, cnt(); k < n; k++ {
			t := &structs.ACLToken{AccessorID: fmt.Sprint("acc", k), SecretID: fmt.Sprint("secret", k)}
			toks = append(toks, t)
			originals = append(originals, t)
		}
		canRead, canWrite := authz.ACLRead(nil) == acl.Allow, authz.ACLWrite(nil) == acl.Allow
		flt.Filter(&toks)
		for k, t := range originals {
			if t.SecretID != fmt.Sprint("secret", k) {
				return mk("ACLTokens", fmt.Sprintf("filtering changed the token object it was given: secret of %s is now %q", t.AccessorID, t.SecretID))
			}
		}
		switch {
		case !canRead && len(toks) != 0:
			return mk("ACLTokens", fmt.Sprintf("the token may not read ACLs but %d tokens were returned", len(toks)))
		case canRead && len(toks) != len(originals):
			return mk("ACLTokens", fmt.Sprintf("the token may read ACLs but %d of %d tokens were returned", len(toks), len(originals)))
		}
		for k, t := range toks {
			hidden := t.SecretID == aclfilter.RedactedToken
			if hidden == canWrite {
				return mk("ACLTokens", fmt.Sprintf("acl:write=%v but the secret of token %d is returned as %q", canWrite, k, t.SecretID))
			}
		}
		s.r.Hit("probe.filter-cases")
	}
	// IndexedSessions
	{
		var v structs.IndexedSessions
		var in []string
		for k, n := 0, cnt(); k < n; k++ {
			nn := pickN()
			in = append(in, nn)
			v.Sessions = append(v.Sessions, &structs.Session{ID: fmt.Sprint("s", k), Node: nn})
		}
		flt.Filter(&v)
		var out []string
		for _, x := range v.Sessions {
			out = append(out, x.Node)
		}
		if vi := check("IndexedSessions", in, out, func(n string) bool { return authz.SessionRead(n, nil) == acl.Allow }, v.ResultsFilteredByACLs); vi != nil {
			return vi
		}
		if vi := again("IndexedSessions", &v, func() bool { return v.ResultsFilteredByACLs }); vi != nil {
			return vi
		}
	}
	// IndexedCoordinates
	{
		var v structs.IndexedCoordinates
		var in []string
		for k, n := 0, cnt(); k < n; k++ {
			nn := pickN()
			in = append(in, nn)
			v.Coordinates = append(v.Coordinates, &structs.Coordinate{Node: nn, Coord: coordinate.NewCoordinate(coordinate.DefaultConfig())})
		}
		flt.Filter(&v)
		var out []string
		for _, x := range v.Coordinates {
			out = append(out, x.Node)
		}
		if vi := check("IndexedCoordinates", in, out, nodeOK, v.ResultsFilteredByACLs); vi != nil {
			return vi
		}
		if vi := again("IndexedCoordinates", &v, func() bool { return v.ResultsFilteredByACLs }); vi != nil {
			return vi
		}
	}
	// IndexedServices (a map: compared as sets)
	{
		v := structs.IndexedServices{Services: structs.Services{}}
		inSet := map[string]bool{}
		for k, n := 0, cnt(); k < n; k++ {
			sn := pickS()
			inSet[sn] = true
			v.Services[sn] = []string{"t"}
		}
		flt.Filter(&v)
		in, out := simkit.SortedKeys(inSet), []string{}
		for k := range v.Services {
			out = append(out, k)
		}
		sort.Strings(out)
		if vi := check("IndexedServices", in, out, svcOK, v.ResultsFilteredByACLs); vi != nil {
			return vi
		}
		if vi := again("IndexedServices", &v, func() bool { return v.ResultsFilteredByACLs }); vi != nil {
			return vi
		}
	}
	// KV entries
	{
		var ents structs.DirEntries
		var in []string
		for k, n := 0, cnt(); k < n; k++ {
			key := simkit.Pick(rng, aclNames)
			in = append(in, key)
			ents = append(ents, &structs.DirEntry{Key: key})
		}
		kept := consul.FilterDirEnt(authz, ents)
		var out []string
		for _, x := range kept {
			out = append(out, x.Key)
		}
		if vi := check("DirEntries", in, out, func(k string) bool { return authz.KeyRead(k, nil) == acl.Allow }, len(kept) != len(ents)); vi != nil {
			return vi
		}
	}
	return nil
}

func (w ACLWorld) execute(p *Plan, r *simkit.Run) *simkit.Violation {
	s := &aclWorldState{w: w, r: r, defAllow: p.Cfg.Extra["default"] == "allow", ttl: parseDur(p.Cfg.Extra["ttl"], 30*time.Second), down: p.Cfg.Extra["down"]}
	s.C = NewCluster(r, parseDur(p.Cfg.GCTTL, 15*time.Minute), parseDur(p.Cfg.GCGran, 30*time.Second))
	defer s.C.Close()
	s.shadow = NewReplica("shadow", s.C.GCTTL, s.C.GCGran)
	settings := consul.ACLResolverSettings{ACLsEnabled: true, Datacenter: "dc1", NodeName: "sim", ACLPolicyTTL: s.ttl, ACLTokenTTL: s.ttl, ACLRoleTTL: s.ttl,
		ACLDownPolicy: s.down, ACLDefaultPolicy: p.Cfg.Extra["default"]}
	if settings.ACLDefaultPolicy == "" {
		settings.ACLDefaultPolicy, settings.ACLDownPolicy = "deny", "extend-cache"
		s.down = "extend-cache"
	}
	if err := consul.VerifEnableACLs(s.C.Shell, settings); err != nil {
		panic(err)
	}
	var err error
	if s.client, err = consul.VerifNewClientResolver(settings, s.clientRPC); err != nil {
		panic(err)
	}
	s.lastACL = time.Now()
	s.steps, s.objTime = p.Steps, map[string]time.Time{}
	for s.pc = 0; s.pc < len(s.steps); s.pc++ {
		i, st := s.pc, s.steps[s.pc]
		r.Steps++
		switch st.Op {
		case "rpc.mid":
			s.midAt = int(st.N)
		case "resolve":
			v := s.judgeResolve(i, st)
			s.midAt = 0
			if v != nil {
				return v
			}
		case "filter":
			if v := s.judgeFilter(i, st); v != nil {
				return v
			}
		case "epfilter":
			if v := s.judgeEndpoints(i, st); v != nil {
				return v
			}
		case "rpc.fail":
			s.rpcFail = int(st.N)
		case "advance":
			d := parseDur(st.Dur, time.Second)
			time.Sleep(d)
			r.AdvanceSim(d)
			r.Eventf("advance %s", d)
		default:
			r.Sig(st.Op)
			n := len(s.C.Log)
			s.touch(st)
			if st.Op == "acl.policy.set" && st.Flag2 && s.C.PolicyRMW(st) {
				if len(s.C.Log) > n {
					s.lastACL = time.Now()
				}
				continue
			}
			s.C.Do(st)
			if s.C.Fatal != nil {
				return &simkit.Violation{Property: w.Prop, Class: "panic", Invariant: "apply-does-not-panic", Step: i, Culprit: st.Op, Detail: s.C.Fatal.Error()}
			}
			if len(s.C.Log) > n {
				s.lastACL = time.Now()
			}
		}
	}
	r.Nontrivial = len(s.C.Log) >= 3
	return nil
}

// touch records that the objects an ACL write names change now.
func (s *aclWorldState) touch(st Step) {
	if !strings.HasPrefix(st.Op, "acl.") {
		return
	}
	now := time.Now()
	s.objTime[st.ID] = now
	if strings.HasSuffix(st.Op, ".delete") {
		for _, id := range st.List {
			s.objTime[id] = now
		}
		return
	}
	// every link an object ever had (the store drops links to objects that are gone when it reads a row)
	if s.links == nil {
		s.links = map[string]map[string]bool{}
	}
	if s.links[st.ID] == nil {
		s.links[st.ID] = map[string]bool{}
	}
	for _, id := range append(append([]string{}, st.List...), st.List2...) {
		s.links[st.ID][id] = true
	}
}

// reachable: the ids of everything a token's decisions are or were built from (itself, the policies and roles
// it ever linked, the policies those roles ever linked).
func (s *aclWorldState) reachable(tok *structs.ACLToken) []string {
	ids := []string{tok.AccessorID}
	for id := range s.links[tok.AccessorID] {
		ids = append(ids, id)
		for id2 := range s.links[id] {
			ids = append(ids, id2)
		}
	}
	return ids
}

// ---- C09 through the real read endpoints

var epKeys = []string{"a", "a/b", "ab", "web", "zz", "n1/x"}
var epNodes = []string{"n1", "n2", "a", "ab", "web", "zz"}

// judgeEndpoints: the real KVS.List and Catalog.ListNodes endpoints on the server shell (ACLs enabled, the
// server's resolver) under the token: the reply holds exactly the stored entries the token's authorizer may
// read and says "filtered" iff something was left out - for an unblocked call, and for a call that was blocked
// and woken by the removal of an entry the token may not read (endpoints fill and filter the same reply once
// per evaluation).
func (s *aclWorldState) judgeEndpoints(i int, st Step) *simkit.Violation {
	authz, err := s.resolve(st.Text, false)
	if err != nil || authz == nil {
		return nil
	}
	shell := s.C.Shell
	if err := consul.VerifServeReads(shell); err != nil {
		panic(err)
	}
	mk := func(what, detail string) *simkit.Violation {
		return &simkit.Violation{Property: "C09", Class: "filter-mismatch", Invariant: "endpoint-reply-holds-exactly-the-readable-entries", Step: i, Culprit: what, Detail: what + ": " + detail}
	}
	s.r.Hit("probe.endpoint-filter-probes")
	type view struct {
		all, want []string
	}
	stored := func() (keys, nodes view) {
		stt := s.C.L.State()
		_, ents, _ := stt.KVSList(nil, "", nil)
		for _, e := range ents {
			keys.all = append(keys.all, e.Key)
			if authz.KeyRead(e.Key, nil) == acl.Allow {
				keys.want = append(keys.want, e.Key)
			}
		}
		_, nds, _ := stt.Nodes(nil, nil, "")
		for _, n := range nds {
			nodes.all = append(nodes.all, n.Node)
			if authz.NodeRead(n.Node, nil) == acl.Allow {
				nodes.want = append(nodes.want, n.Node)
			}
		}
		return
	}
	judge := func(what string, got []string, flag bool, v view) *simkit.Violation {
		if fmt.Sprint(got) != fmt.Sprint(v.want) {
			return mk(what, fmt.Sprintf("stored %v, the reply holds %v, the token's authorizer allows exactly %v", v.all, got, v.want))
		}
		if flag != (len(v.want) != len(v.all)) {
			return mk(what, fmt.Sprintf("stored %v, the reply holds %v, yet the filtered flag is %v", v.all, got, flag))
		}
		s.r.Hit("probe.endpoint-filter-cases")
		return nil
	}
	kvList := func(min uint64) (idx uint64, got []string, flag bool, err error) {
		var rep structs.IndexedDirEntries
		args := &structs.KeyRequest{Datacenter: "dc1", Key: "", QueryOptions: structs.QueryOptions{Token: st.Text, MinQueryIndex: min, MaxQueryTime: time.Minute}}
		err = consul.VerifRead(shell, "KVS.List", args, &rep)
		for _, e := range rep.Entries {
			got = append(got, e.Key)
		}
		return rep.Index, got, rep.ResultsFilteredByACLs, err
	}
	nodeList := func(min uint64) (idx uint64, got []string, flag bool, err error) {
		var rep structs.IndexedNodes
		args := &structs.DCSpecificRequest{Datacenter: "dc1", QueryOptions: structs.QueryOptions{Token: st.Text, MinQueryIndex: min, MaxQueryTime: time.Minute}}
		err = consul.VerifRead(shell, "Catalog.ListNodes", args, &rep)
		for _, n := range rep.Nodes {
			got = append(got, n.Node)
		}
		return rep.Index, got, rep.ResultsFilteredByACLs, err
	}
	keys, nodes := stored()
	kidx, kgot, kflag, err := kvList(0)
	if err != nil {
		return nil // (the token does not resolve on the endpoint either: expired or deleted meanwhile)
	}
	if v := judge("KVS.List", kgot, kflag, keys); v != nil {
		return v
	}
	nidx, ngot, nflag, err := nodeList(0)
	if err != nil {
		return nil
	}
	if v := judge("Catalog.ListNodes", ngot, nflag, nodes); v != nil {
		return v
	}
	// blocked calls, woken by the removal of one entry the token may not read
	unreadable := func(v view) string {
		for _, x := range v.all {
			ok := false
			for _, y := range v.want {
				ok = ok || x == y
			}
			if !ok {
				return x
			}
		}
		return ""
	}
	type blocked struct {
		got  []string
		flag bool
		err  error
	}
	if st.N%4 == 0 {
		// leave a single unreadable key, so that its removal is the difference between "filtered" and not
		for len(keys.all)-len(keys.want) > 1 {
			s.C.Do(Step{Op: "kv.delete", Key: unreadable(keys)})
			keys, _ = stored()
		}
		if kidx, _, _, err = kvList(0); err != nil {
			return nil
		}
	}
	if k := unreadable(keys); k != "" && st.N%2 == 0 {
		ch := make(chan blocked, 1)
		go func() { _, g, f, e := kvList(kidx); ch <- blocked{g, f, e} }()
		synctest.Wait()
		s.C.Do(Step{Op: "kv.delete", Key: k})
		synctest.Wait()
		select {
		case b := <-ch:
			if b.err == nil {
				keys, _ = stored()
				if v := judge("KVS.List (blocked, woken by the removal of "+k+")", b.got, b.flag, keys); v != nil {
					return v
				}
				s.r.Hit("probe.endpoint-filter-blocked-cases")
			}
		default:
			return mk("KVS.List (blocked)", "the call is still parked after a key under its prefix was deleted")
		}
	}
	if n := unreadable(nodes); n != "" && st.N%2 == 1 {
		ch := make(chan blocked, 1)
		go func() { _, g, f, e := nodeList(nidx); ch <- blocked{g, f, e} }()
		synctest.Wait()
		s.C.Do(Step{Op: "deregister", Node: n})
		synctest.Wait()
		select {
		case b := <-ch:
			if b.err == nil {
				_, nodes = stored()
				if v := judge("Catalog.ListNodes (blocked, woken by the removal of "+n+")", b.got, b.flag, nodes); v != nil {
					return v
				}
				s.r.Hit("probe.endpoint-filter-blocked-cases")
			}
		default:
			return mk("Catalog.ListNodes (blocked)", "the call is still parked after a node was deregistered")
		}
	}
	return nil
}
