//go:build verif

package fsmworld

import (
	"encoding/json"
	"errors"
	"fmt"
	"strings"
	"time"

	"github.com/hashicorp/serf/coordinate"
	"google.golang.org/protobuf/types/known/timestamppb"

	"github.com/hashicorp/consul/acl"
	"github.com/hashicorp/consul/agent/consul/state"
	"github.com/hashicorp/consul/agent/structs"
	"github.com/hashicorp/consul/proto/private/pbpeering"
)

func PolicyUUID(n int) string { return fmt.Sprintf("b01c1000-0000-4000-8000-%012x", n) }
func RoleUUID(n int) string   { return fmt.Sprintf("401e1000-0000-4000-8000-%012x", n) }
func TokenUUID(n int) string  { return fmt.Sprintf("70ce1000-0000-4000-8000-%012x", n) }
func SecretUUID(n int) string { return fmt.Sprintf("5ec4e700-0000-4000-8000-%012x", n) }
func RuleUUID(n int) string   { return fmt.Sprintf("41e00000-0000-4000-8000-%012x", n) }
func PeerUUID(n int) string   { return fmt.Sprintf("bee40000-0000-4000-8000-%012x", n) }
func IxnUUID(n int) string    { return fmt.Sprintf("1e7e0000-0000-4000-8000-%012x", n) }

var defaultEntMeta = structs.DefaultEnterpriseMetaInDefaultPartition

// DecodeConfigEntryJSON turns the plan's JSON text into a normalised, validated
// config entry exactly as the HTTP+RPC endpoints would.
func DecodeConfigEntryJSON(text string) (structs.ConfigEntry, error) {
	var raw map[string]interface{}
	if err := json.Unmarshal([]byte(text), &raw); err != nil {
		return nil, err
	}
	return structs.DecodeConfigEntry(raw)
}

// doExt handles the long tail of command types (prepared queries, ACL, config
// entries, CA, peering, ...). Returns false for an unknown op.
func (c *Cluster) doExt(s Step, out *Outcome) bool {
	st := c.L.State()
	switch s.Op {
	case "pq.set":
		q := &structs.PreparedQuery{ID: s.ID, Name: s.Name, Session: s.Sess, Service: structs.ServiceQuery{Service: s.Svc}}
		op := structs.PreparedQueryCreate
		if _, existing, _ := st.PreparedQueryGet(nil, s.ID); existing != nil {
			op = structs.PreparedQueryUpdate
		}
		c.apply(structs.PreparedQueryRequestType, &structs.PreparedQueryRequest{Datacenter: "dc1", Op: op, Query: q}, s, out)
	case "pq.delete":
		c.apply(structs.PreparedQueryRequestType, &structs.PreparedQueryRequest{Datacenter: "dc1", Op: structs.PreparedQueryDelete,
			Query: &structs.PreparedQuery{ID: s.ID}}, s, out)

	case "coord":
		var cs structs.Coordinates
		for i, n := range s.List {
			co := coordinate.NewCoordinate(coordinate.DefaultConfig())
			co.Vec[0] = float64(s.N+int64(i)) / 1000
			co.Height = 0.001 * float64(1+i)
			cs = append(cs, &structs.Coordinate{Node: n, Segment: s.Text, Coord: co})
		}
		c.apply(structs.CoordinateBatchUpdateType, cs, s, out)

	// ----- ACL
	case "acl.policy.set":
		p := &structs.ACLPolicy{ID: s.ID, Name: s.Name, Description: s.Text2, Rules: s.Text, Datacenters: s.List}
		if s.Text2 == "fat" {
			p.Description = fedFatText
		}
		p.EnterpriseMeta = *defaultEntMeta()
		p.SetHash(true)
		c.apply(structs.ACLPolicySetRequestType, &structs.ACLPolicyBatchSetRequest{Policies: structs.ACLPolicies{p}}, s, out)
	case "acl.policy.delete":
		c.apply(structs.ACLPolicyDeleteRequestType, &structs.ACLPolicyBatchDeleteRequest{PolicyIDs: append([]string{s.ID}, s.List...)}, s, out)
	case "acl.role.set":
		r := &structs.ACLRole{ID: s.ID, Name: s.Name, Description: s.Text2}
		for _, p := range s.List {
			r.Policies = append(r.Policies, structs.ACLRolePolicyLink{ID: p})
		}
		if s.Svc != "" {
			si := &structs.ACLServiceIdentity{ServiceName: s.Svc}
			if s.Dest != "" {
				si.Datacenters = strings.Split(s.Dest, ",")
			}
			r.ServiceIdentities = append(r.ServiceIdentities, si)
		}
		r.EnterpriseMeta = *defaultEntMeta()
		r.SetHash(true)
		c.apply(structs.ACLRoleSetRequestType, &structs.ACLRoleBatchSetRequest{Roles: structs.ACLRoles{r}, AllowMissingLinks: s.Flag}, s, out)
	case "acl.role.delete":
		c.apply(structs.ACLRoleDeleteRequestType, &structs.ACLRoleBatchDeleteRequest{RoleIDs: []string{s.ID}}, s, out)
	case "acl.token.set":
		t := &structs.ACLToken{AccessorID: s.ID, SecretID: s.Text, Description: s.Text2, Local: s.Flag2, CreateTime: time.Now().Round(0)}
		for _, p := range s.List {
			t.Policies = append(t.Policies, structs.ACLTokenPolicyLink{ID: p})
		}
		for _, r := range s.List2 {
			t.Roles = append(t.Roles, structs.ACLTokenRoleLink{ID: r})
		}
		if s.Svc != "" {
			si := &structs.ACLServiceIdentity{ServiceName: s.Svc}
			if s.Dest != "" {
				si.Datacenters = strings.Split(s.Dest, ",")
			}
			t.ServiceIdentities = append(t.ServiceIdentities, si)
		}
		if s.Node != "" {
			t.NodeIdentities = append(t.NodeIdentities, &structs.ACLNodeIdentity{NodeName: s.Node, Datacenter: "dc1"})
		}
		if s.N > 0 {
			exp := time.Now().Add(time.Duration(s.N) * time.Second).Round(0)
			t.ExpirationTime = &exp
		}
		if s.Name != "" {
			t.AuthMethod = s.Name
		}
		t.EnterpriseMeta = *defaultEntMeta()
		if _, ex, _ := st.ACLTokenGetByAccessor(nil, s.ID, nil); ex != nil {
			// as ACL.TokenSet: creation and expiration time cannot be changed by an update
			t.CreateTime, t.ExpirationTime = ex.CreateTime, ex.ExpirationTime
		}
		if s.Idx != "" {
			var cur uint64
			if _, ex, _ := st.ACLTokenGetByAccessor(nil, s.ID, nil); ex != nil {
				cur = ex.ModifyIndex
			}
			t.ModifyIndex = resolveIdx(s.Idx, cur)
		}
		t.SetHash(true)
		c.apply(structs.ACLTokenSetRequestType, &structs.ACLTokenBatchSetRequest{Tokens: structs.ACLTokens{t}, CAS: s.Idx != "", AllowMissingLinks: s.Flag}, s, out)
	case "acl.token.batch-cas":
		// several tokens in one conditional batch: each token is written iff its own index matches
		var toks structs.ACLTokens
		for _, o := range s.Ops {
			t := &structs.ACLToken{AccessorID: o.ID, SecretID: o.Text, Description: o.Text2, CreateTime: time.Now().Round(0)}
			t.EnterpriseMeta = *defaultEntMeta()
			var cur uint64
			if _, ex, _ := st.ACLTokenGetByAccessor(nil, o.ID, nil); ex != nil {
				cur = ex.ModifyIndex
				t.CreateTime, t.ExpirationTime = ex.CreateTime, ex.ExpirationTime
			}
			t.ModifyIndex = resolveIdx(o.Idx, cur)
			if o.Name == "deadlink" {
				t.Policies = []structs.ACLTokenPolicyLink{{ID: PolicyUUID(99)}}
			}
			t.SetHash(true)
			toks = append(toks, t)
		}
		c.apply(structs.ACLTokenSetRequestType, &structs.ACLTokenBatchSetRequest{Tokens: toks, CAS: true}, s, out)
	case "acl.token.delete":
		c.apply(structs.ACLTokenDeleteRequestType, &structs.ACLTokenBatchDeleteRequest{TokenIDs: []string{s.ID}}, s, out)
	case "acl.bootstrap":
		t := structs.ACLToken{AccessorID: s.ID, SecretID: s.Text, Description: "Bootstrap Token (Global Management)",
			Policies: []structs.ACLTokenPolicyLink{{ID: structs.ACLPolicyGlobalManagementID}}, CreateTime: time.Now().Round(0)}
		t.EnterpriseMeta = *defaultEntMeta()
		t.SetHash(true)
		var reset uint64
		if s.Idx == "cur" {
			_, reset, _ = st.CanBootstrapACLToken()
		} else {
			reset = resolveIdx(s.Idx, 0)
		}
		c.apply(structs.ACLBootstrapRequestType, &structs.ACLTokenBootstrapRequest{Token: t, ResetIndex: reset}, s, out)
	case "acl.method.set":
		m := &structs.ACLAuthMethod{Name: s.Name, Type: "jwt", Description: s.Text2, DisplayName: s.Text,
			Config: map[string]interface{}{"BoundIssuer": "https://issuer/" + s.Text}}
		if s.N > 0 {
			m.MaxTokenTTL = time.Duration(s.N) * time.Second
		}
		m.EnterpriseMeta = *defaultEntMeta()
		c.apply(structs.ACLAuthMethodSetRequestType, &structs.ACLAuthMethodBatchSetRequest{AuthMethods: structs.ACLAuthMethods{m}}, s, out)
	case "acl.method.delete":
		req := &structs.ACLAuthMethodBatchDeleteRequest{AuthMethodNames: []string{s.Name}}
		req.EnterpriseMeta = *defaultEntMeta()
		c.apply(structs.ACLAuthMethodDeleteRequestType, req, s, out)
	case "acl.rule.set":
		r := &structs.ACLBindingRule{ID: s.ID, AuthMethod: s.Name, Description: s.Text2, BindType: structs.BindingRuleBindTypeService, BindName: s.Text, Selector: ""}
		r.EnterpriseMeta = *defaultEntMeta()
		c.apply(structs.ACLBindingRuleSetRequestType, &structs.ACLBindingRuleBatchSetRequest{BindingRules: structs.ACLBindingRules{r}}, s, out)
	case "acl.rule.delete":
		c.apply(structs.ACLBindingRuleDeleteRequestType, &structs.ACLBindingRuleBatchDeleteRequest{BindingRuleIDs: []string{s.ID}}, s, out)

	// ----- config entries
	case "ce.upsert", "ce.upsert-cas", "ce.delete", "ce.delete-cas", "ce.upsert-status-cas":
		entry, err := DecodeConfigEntryJSON(s.Text)
		if err != nil {
			out.Rejected, out.Err = true, err
			return true
		}
		if err := entry.Normalize(); err != nil {
			out.Rejected, out.Err = true, err
			return true
		}
		isDelete := strings.HasPrefix(s.Op, "ce.delete")
		if !isDelete {
			if err := entry.Validate(); err != nil {
				c.Run.Hit("probe.config-entry-rejected-by-validate")
				out.Rejected, out.Err = true, err
				return true
			}
		}
		var cur uint64
		if _, ex, _ := st.ConfigEntry(nil, entry.GetKind(), entry.GetName(), entry.GetEnterpriseMeta()); ex != nil {
			cur = ex.GetRaftIndex().ModifyIndex
		}
		op := map[string]structs.ConfigEntryOp{"ce.upsert": structs.ConfigEntryUpsert, "ce.upsert-cas": structs.ConfigEntryUpsertCAS,
			"ce.delete": structs.ConfigEntryDelete, "ce.delete-cas": structs.ConfigEntryDeleteCAS, "ce.upsert-status-cas": structs.ConfigEntryUpsertWithStatusCAS}[s.Op]
		if op != structs.ConfigEntryUpsert && op != structs.ConfigEntryDelete {
			entry.GetRaftIndex().ModifyIndex = resolveIdx(s.Idx, cur)
		}
		c.apply(structs.ConfigEntryRequestType, &structs.ConfigEntryRequest{Op: op, Datacenter: "dc1", Entry: entry}, s, out)

	// ----- intentions (legacy table and mutations of service-intentions entries)
	case "ixn.legacy.set", "ixn.legacy.delete", "ixn.legacy.delete-all":
		ixn := &structs.Intention{ID: s.ID, SourceNS: "default", SourceName: s.Name, DestinationNS: "default", DestinationName: s.Svc,
			SourcePartition: "default", DestinationPartition: "default",
			SourceType: structs.IntentionSourceConsul, Action: structs.IntentionAction(s.Text), Description: s.Text2,
			CreatedAt: time.Now().UTC().Round(0), UpdatedAt: time.Now().UTC().Round(0)}
		// Precedence is left to the store, as the Intention.Apply endpoint does
		//nolint:staticcheck
		ixn.SetHash()
		op := structs.IntentionOpCreate
		switch s.Op {
		case "ixn.legacy.delete":
			op = structs.IntentionOpDelete
		case "ixn.legacy.delete-all":
			op = structs.IntentionOpDeleteAll
		default:
			if _, _, ex, _ := st.IntentionGet(nil, s.ID); ex != nil {
				op = structs.IntentionOpUpdate
			}
		}
		c.apply(structs.IntentionRequestType, &structs.IntentionRequest{Datacenter: "dc1", Op: op, Intention: ixn}, s, out)
	case "ixn.mut.upsert", "ixn.mut.delete":
		mut := &structs.IntentionMutation{
			Destination: structs.NewServiceName(s.Svc, nil),
			Source:      structs.NewServiceName(s.Name, nil),
		}
		op := structs.IntentionOpDelete
		if s.Op == "ixn.mut.upsert" {
			op = structs.IntentionOpUpsert
			mut.Value = &structs.SourceIntention{Name: s.Name, Action: structs.IntentionAction(s.Text), Type: structs.IntentionSourceConsul, Description: s.Text2}
			mut.Value.EnterpriseMeta = *defaultEntMeta()
		}
		if s.ID != "" {
			// by legacy ID (create/update/delete through the legacy API against config entries)
			mut = &structs.IntentionMutation{ID: s.ID, Value: mut.Value}
			if s.Op == "ixn.mut.upsert" {
				op = structs.IntentionOpUpdate
				mut.Destination = structs.NewServiceName(s.Svc, nil)
				mut.Value.LegacyID = s.ID
			}
		}
		c.apply(structs.IntentionRequestType, &structs.IntentionRequest{Datacenter: "dc1", Op: op, Mutation: mut}, s, out)

	// ----- connect CA
	case "ca.set-config":
		var cur uint64
		if _, cfg, _ := st.CAConfig(nil); cfg != nil {
			cur = cfg.ModifyIndex
		}
		cfg := &structs.CAConfiguration{ClusterID: "11111111-2222-3333-4444-555555555555", Provider: "consul",
			Config: map[string]interface{}{"LeafCertTTL": s.Text, "RootCertTTL": "87600h"}}
		cfg.ModifyIndex = resolveIdx(s.Idx, cur)
		c.apply(structs.ConnectCARequestType, &structs.CARequest{Op: structs.CAOpSetConfig, Datacenter: "dc1", Config: cfg}, s, out)
	case "ca.set-roots", "ca.set-roots-config":
		ridx, _, _ := st.CARoots(nil)
		var roots []*structs.CARoot
		for i, id := range s.List {
			roots = append(roots, &structs.CARoot{ID: id, Name: "root " + id, RootCert: "-----BEGIN CERTIFICATE-----\n" + id + "\n-----END CERTIFICATE-----\n",
				SigningKeyID: "key-" + id, Active: int64(i) == s.N || (s.Flag && i == 0),
				NotBefore: time.Unix(946684800, 0).UTC(), NotAfter: time.Unix(1946684800, 0).UTC()})
		}
		req := &structs.CARequest{Op: structs.CAOpSetRoots, Datacenter: "dc1", Index: resolveIdx(s.Idx, ridx), Roots: roots}
		if s.Op == "ca.set-roots-config" {
			req.Op = structs.CAOpSetRootsAndConfig
			var cur uint64
			if _, cfg, _ := st.CAConfig(nil); cfg != nil {
				cur = cfg.ModifyIndex
			}
			req.Config = &structs.CAConfiguration{ClusterID: "11111111-2222-3333-4444-555555555555", Provider: "consul",
				Config: map[string]interface{}{"LeafCertTTL": s.Text}}
			req.Config.ModifyIndex = resolveIdx(s.Text2, cur)
		}
		c.apply(structs.ConnectCARequestType, req, s, out)
	case "ca.provider-state":
		c.apply(structs.ConnectCARequestType, &structs.CARequest{Op: structs.CAOpSetProviderState, Datacenter: "dc1",
			ProviderState: &structs.CAConsulProviderState{ID: s.ID, PrivateKey: "key " + s.Text, RootCert: "cert " + s.Text}}, s, out)
	case "ca.delete-provider-state":
		c.apply(structs.ConnectCARequestType, &structs.CARequest{Op: structs.CAOpDeleteProviderState, Datacenter: "dc1",
			ProviderState: &structs.CAConsulProviderState{ID: s.ID}}, s, out)
	case "ca.incr-serial":
		c.apply(structs.ConnectCARequestType, &structs.CARequest{Op: structs.CAOpIncrementProviderSerialNumber, Datacenter: "dc1"}, s, out)
	case "ca.leaf-index":
		c.apply(structs.ConnectCALeafRequestType, &structs.CALeafRequest{Op: structs.CALeafOpIncrementIndex, Datacenter: "dc1"}, s, out)

	// ----- peering
	case "peer.write":
		p := &pbpeering.Peering{ID: s.ID, Name: s.Name, Partition: "", State: pbpeering.PeeringState(s.N), PeerID: s.Text,
			PeerServerName: "server.dc2.consul", PeerServerAddresses: s.List}
		if s.Flag {
			p.DeletedAt = timestamppb.New(time.Now().UTC().Round(0))
			p.State = pbpeering.PeeringState_DELETING
		}
		if s.Text2 != "" {
			p.Meta = map[string]string{"env": s.Text2}
		}
		req := &pbpeering.PeeringWriteRequest{Peering: p}
		if s.Flag2 {
			req.SecretsRequest = &pbpeering.SecretsWriteRequest{PeerID: s.ID, Request: &pbpeering.SecretsWriteRequest_GenerateToken{
				GenerateToken: &pbpeering.SecretsWriteRequest_GenerateTokenRequest{EstablishmentSecret: SecretUUID(int(s.M) + 100)}}}
		}
		c.applyProto(structs.PeeringWriteType, req, s, out)
	case "peer.delete":
		c.applyProto(structs.PeeringDeleteType, &pbpeering.PeeringDeleteRequest{Name: s.Name}, s, out)
	case "peer.terminate":
		c.applyProto(structs.PeeringTerminateByIDType, &pbpeering.PeeringTerminateByIDRequest{ID: s.ID}, s, out)
	case "peer.bundle.write":
		c.applyProto(structs.PeeringTrustBundleWriteType, &pbpeering.PeeringTrustBundleWriteRequest{PeeringTrustBundle: &pbpeering.PeeringTrustBundle{
			TrustDomain: s.Text + ".consul", PeerName: s.Name, RootPEMs: s.List}}, s, out)
	case "peer.bundle.delete":
		c.applyProto(structs.PeeringTrustBundleDeleteType, &pbpeering.PeeringTrustBundleDeleteRequest{Name: s.Name}, s, out)
	case "peer.secrets":
		req := &pbpeering.SecretsWriteRequest{PeerID: s.ID}
		switch s.Text {
		case "exchange":
			req.Request = &pbpeering.SecretsWriteRequest_ExchangeSecret{ExchangeSecret: &pbpeering.SecretsWriteRequest_ExchangeSecretRequest{
				EstablishmentSecret: SecretUUID(int(s.M) + 100), PendingStreamSecret: SecretUUID(int(s.M) + 200)}}
		case "promote":
			req.Request = &pbpeering.SecretsWriteRequest_PromotePending{PromotePending: &pbpeering.SecretsWriteRequest_PromotePendingRequest{
				ActiveStreamSecret: SecretUUID(int(s.M) + 200)}}
		case "establish":
			req.Request = &pbpeering.SecretsWriteRequest_Establish{Establish: &pbpeering.SecretsWriteRequest_EstablishRequest{
				ActiveStreamSecret: SecretUUID(int(s.M) + 300)}}
		default:
			req.Request = &pbpeering.SecretsWriteRequest_GenerateToken{GenerateToken: &pbpeering.SecretsWriteRequest_GenerateTokenRequest{
				EstablishmentSecret: SecretUUID(int(s.M) + 100)}}
		}
		c.applyProto(structs.PeeringSecretsWriteType, req, s, out)

	// ----- misc
	case "sysmeta.set", "sysmeta.delete":
		op := structs.SystemMetadataUpsert
		if s.Op == "sysmeta.delete" {
			op = structs.SystemMetadataDelete
		}
		c.apply(structs.SystemMetadataRequestType, &structs.SystemMetadataRequest{Datacenter: "dc1", Op: op,
			Entry: &structs.SystemMetadataEntry{Key: s.Key, Value: s.Val}}, s, out)
	case "fedstate.set", "fedstate.delete":
		op := structs.FederationStateUpsert
		fs := &structs.FederationState{Datacenter: s.Name}
		if s.Op == "fedstate.delete" {
			op = structs.FederationStateDelete
		} else {
			if !s.Flag { // (a writer that leaves the timestamp out: the stored record must not pick up a server's clock)
				fs.UpdatedAt = time.Now().UTC().Round(0)
			}
			fs.PrimaryModifyIndex = uint64(s.N)
			for _, n := range s.List {
				fs.MeshGateways = append(fs.MeshGateways, structs.CheckServiceNode{
					Node:    &structs.Node{Node: n, Address: "10.9.0.1", Datacenter: s.Name},
					Service: &structs.NodeService{Kind: structs.ServiceKindMeshGateway, ID: "mgw", Service: "mgw", Port: 8443},
				})
			}
		}
		c.apply(structs.FederationStateRequestType, &structs.FederationStateRequest{Datacenter: "dc1", Op: op, State: fs}, s, out)
	case "autopilot":
		_, curCfg, _ := st.AutopilotConfig()
		var cur uint64
		if curCfg != nil {
			cur = curCfg.ModifyIndex
		}
		cfg := structs.AutopilotConfig{CleanupDeadServers: s.Flag2, MaxTrailingLogs: uint64(s.N), LastContactThreshold: 200 * time.Millisecond,
			ServerStabilizationTime: 10 * time.Second}
		cfg.ModifyIndex = resolveIdx(s.Idx, cur)
		c.apply(structs.AutopilotRequestType, &structs.AutopilotSetConfigRequest{Datacenter: "dc1", Config: cfg, CAS: s.Flag}, s, out)
	case "featuregate":
		_, pol, stt, _ := st.FeatureGatePolicyAndStatus(nil)
		var pi, si uint64
		if pol != nil {
			pi = pol.ModifyIndex
		}
		if stt != nil {
			si = stt.ModifyIndex
		}
		req := &structs.FeatureGateUpdateRequest{ExpectedPolicyIndex: resolveIdx(s.Idx, pi), ExpectedStatusIndex: resolveIdx(s.Text2, si)}
		if s.Flag {
			req.Policy = &structs.FeatureGatePolicy{Settings: map[string]structs.FeatureGateSetting{s.Name: {Enabled: s.Flag2, Source: structs.FeatureGateSourceOperator}}}
		}
		if !s.NoChecks { // NoChecks reused: omit status (invalid request)
			req.Status = &structs.FeatureGateStatus{RegistryDigest: s.Text, Features: map[string]structs.ResolvedFeatureGate{
				s.Name: {DesiredEnabled: s.Flag2, EffectiveEnabled: s.Flag2, Eligible: true, Source: "operator"}}}
		}
		c.apply(structs.FeatureGateRequestType, req, s, out)
	case "vip.manual":
		req := &state.ServiceVirtualIP{Service: structs.PeeredServiceName{ServiceName: structs.NewServiceName(s.Svc, nil), Peer: s.Peer}, ManualIPs: s.List}
		c.apply(structs.UpdateVirtualIPRequestType, req, s, out)
	default:
		return false
	}
	return true
}

func (c *Cluster) applyProto(t structs.MessageType, msg any, s Step, out *Outcome) {
	c.curFault, c.curGap, c.curDesc = s.Fault, s.Gap, s.Short()
	buf, err := structs.EncodeProtoInterface(t, msg)
	if err != nil {
		out.Rejected, out.Err = true, err
		return
	}
	resp, err := c.hookRaftApply(t, buf)
	out.Err = err
	if err == nil {
		out.Resp = resp
	}
}

var _ = acl.WildcardName
var _ = errors.New
