//go:build verif

package fsmworld

import (
	"github.com/hashicorp/consul/agent/structs"
)

// doExt handles the long tail of command types (prepared queries, ACL, config
// entries, CA, peering, ...). Returns false for an unknown op.
func (c *Cluster) doExt(s Step, out *Outcome) bool {
	switch s.Op {
	case "pq.set":
		q := &structs.PreparedQuery{ID: s.ID, Name: s.Name, Session: s.Sess, Service: structs.ServiceQuery{Service: s.Svc}}
		op := structs.PreparedQueryCreate
		if _, existing, _ := c.L.State().PreparedQueryGet(nil, s.ID); existing != nil {
			op = structs.PreparedQueryUpdate
		}
		c.apply(structs.PreparedQueryRequestType, &structs.PreparedQueryRequest{Datacenter: "dc1", Op: op, Query: q}, s, out)
	case "pq.delete":
		c.apply(structs.PreparedQueryRequestType, &structs.PreparedQueryRequest{Datacenter: "dc1", Op: structs.PreparedQueryDelete,
			Query: &structs.PreparedQuery{ID: s.ID}}, s, out)
	default:
		return false
	}
	return true
}
