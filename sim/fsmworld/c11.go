//go:build verif

package fsmworld

import (
	"context"
	"errors"
	"fmt"
	"github.com/hashicorp/consul/acl"
	"math/rand/v2"
	"sort"
	"strings"
	"testing"
	"testing/synctest"
	"time"

	"github.com/hashicorp/consul/agent/consul/state"
	"github.com/hashicorp/consul/agent/consul/stream"
	"github.com/hashicorp/consul/agent/structs"
	"github.com/hashicorp/consul/internal/verifsim/simkit"
	"github.com/hashicorp/consul/proto/private/pbsubscribe"
)

// C11 (W2, step mode): streaming subscribers materialize exactly the server's state.
//
// Real stream.EventPublisher, real state event generators, real snapshot
// handlers, real Subscription. EventPublisher.Run is NOT started: the hand-off
// of a committed batch to the topic buffers is the plan step "drain" (shim
// VerifDrainOne), so the window between commit and publication - and the
// window between snapshot creation and splice - are scheduling decisions.
// Subscribers are tasks with at most one outstanding Next call.
type C11 struct{}

func (C11) Decode(raw []byte) (simkit.Plan, error) { return DecodePlan(raw) }

// subscription targets
var c11Topics = []string{"health", "connect", "list", "resolver", "intentions", "resolver*"}

func (C11) Generate(rng *rand.Rand, tier string, runIdx uint64) simkit.Plan {
	u := DefaultUniverse()
	u.Nodes = u.Nodes[:2]
	w := Weights{Register: 40, Deregister: 18, Txn: 4, Kinds: true, DestCaseVariants: simkit.Chance(rng, 35)}
	g := NewGen(rng, u, w)
	p := &Plan{Cfg: Cfg{GCTTL: "15m", GCGran: "30s", Extra: map[string]string{
		"cache_ttl": simkit.Pick(rng, []string{"0s", "2s", "1m"}),
	}}}
	nsub := 2 + rng.IntN(4)
	n := 15 + rng.IntN(70)
	if simkit.Chance(rng, 60) {
		p.Steps = append(p.Steps, Step{Op: "ca.set-config", Text: "72h", Idx: "zero"})
	}
	for len(p.Steps) < n {
		sub := int64(rng.IntN(nsub))
		switch simkit.Weighted(rng, []int{30, 20, 14, 22, 5, 3, 3, 2, 3}) {
		case 0:
			s := g.Next()
			if s.Op == "txn" {
				// one log entry that registers two services: one event batch with two events on the list topic
				a, b := g.pick(u.Services), g.pick(u.Services)
				node := g.pick(u.Nodes)
				s = Step{Op: "txn", Ops: []Step{
					{Op: "service.set", Node: node, Svc: a, Port: 8000 + g.R.IntN(3)},
					{Op: "service.set", Node: node, Svc: b, SvcID: b + "2", Port: 8000 + g.R.IntN(3)}}}
				p.Steps = append(p.Steps, Step{Op: "register", Node: node, Addr: "10.0.0.9"})
			}
			p.Steps = append(p.Steps, s)
		case 1:
			if simkit.Chance(rng, 12) {
				// a service-level check that moves between two instances of one service on one node
				node, svc := g.pick(u.Nodes), g.pick(u.Services)
				inst := svc + simkit.Pick(rng, []string{"1", "2"})
				p.Steps = append(p.Steps,
					Step{Op: "register", Node: node, Addr: "10.0.0.8", Svc: svc, SvcID: inst, Port: 8000},
					Step{Op: "register", Node: node, Addr: "10.0.0.8", SkipNode: true, Checks: []Check{{ID: "cmove", Status: g.status(), SvcID: inst}}})
				continue
			}
			if simkit.Chance(rng, 12) {
				// an instance id that moves to another service name in the same registration that changes its node
				// (address, or a node-level check): subscribers of the old name must see it leave
				node := g.pick(u.Nodes)
				a, b := u.Services[rng.IntN(len(u.Services))], u.Services[rng.IntN(len(u.Services))]
				mv := Step{Op: "register", Node: node, Addr: simkit.Pick(rng, []string{"10.0.0.6", "10.0.0.7"}), Svc: b, SvcID: "mv1", Port: 8000}
				if simkit.Chance(rng, 50) {
					mv.Checks = []Check{{ID: "serfHealth", Status: g.status()}}
				}
				p.Steps = append(p.Steps, Step{Op: "register", Node: node, Addr: "10.0.0.5", Svc: a, SvcID: "mv1", Port: 8000}, mv)
				continue
			}
			p.Steps = append(p.Steps, Step{Op: "drain", N: int64(1 + rng.IntN(2))})
		case 2:
			s := Step{Op: "sub", N: sub, Name: simkit.Pick(rng, c11Topics), Svc: g.pick(u.Services), Idx: simkit.Pick(rng, []string{"zero", "zero", "last", "last", "stale"})}
			if simkit.Chance(rng, 25) {
				s.ID = SecretUUID(1 + rng.IntN(2)) // subscribe with an ACL token
			}
			if simkit.Chance(rng, 25) && (s.Name == "list" || s.Name == "health") {
				s.Flag2 = true // a token that may read nodes and the service "web" only
			}
			p.Steps = append(p.Steps, s)
		case 3:
			p.Steps = append(p.Steps, Step{Op: "next", N: sub})
		case 4:
			p.Steps = append(p.Steps, Step{Op: "unsub", N: sub})
		case 5:
			p.Steps = append(p.Steps, Step{Op: "advance", Dur: simkit.Pick(rng, []string{"1s", "3s", "2m"})})
		case 6:
			// config entries the config topics carry
			text := mustJSON(M{"Kind": "service-resolver", "Name": g.pick(u.Services), "ConnectTimeout": simkit.Pick(rng, []string{"5s", "7s"})})
			if simkit.Chance(rng, 40) {
				text = g.IntentionsJSON()
			}
			p.Steps = append(p.Steps, Step{Op: simkit.Pick(rng, []string{"ce.upsert", "ce.upsert", "ce.delete"}), Text: text})
		case 7:
			id := 1 + rng.IntN(2)
			if simkit.Chance(rng, 70) {
				p.Steps = append(p.Steps, Step{Op: "acl.token.set", ID: TokenUUID(id), Text: SecretUUID(id), Text2: simkit.Pick(rng, []string{"a", "b"})})
			} else {
				p.Steps = append(p.Steps, Step{Op: "acl.token.delete", ID: TokenUUID(id)})
			}
		case 8:
			if simkit.Chance(rng, 50) {
				p.Steps = append(p.Steps, Step{Op: "leader.snapshot"})
			} else {
				p.Steps = append(p.Steps, Step{Op: "leader.install", Flag: simkit.Chance(rng, 60), Flag2: simkit.Chance(rng, 50)})
			}
		}
	}
	return p
}

func (w C11) Execute(t *testing.T, pl simkit.Plan, r *simkit.Run) (v *simkit.Violation) {
	if err := simkit.Bubble(t, func() { v = w.execute(pl.(*Plan), r) }); err != nil {
		return &simkit.Violation{Class: "harness-panic", Invariant: "no-escaped-panic", Detail: err.Error()}
	}
	return v
}

// subscriber is one streaming client: a materialized view plus the bookkeeping a real client keeps.
type subscriber struct {
	id        int64
	topic     string // health connect list resolver intentions resolver*
	svc       string
	token     string
	sub       *stream.Subscription
	view      map[string]string
	snapDone  bool
	lastIndex uint64 // index of the last delivered event (what a client would resume from)
	subMax    uint64 // highest index delivered by the CURRENT subscription (monotonicity is per subscription:
	// a resubscribe may be served from a cached snapshot that is older than what an earlier subscription delivered)
	anyIndex []uint64
	// outstanding Next call
	pending            chan nextResult
	closedErr          error
	subscribedAtCommit int
	aclTouchedSince    bool
	// authz: what the subscribe service resolved for the subscriber's token (nil = may read everything);
	// events are filtered with it exactly as the service does before they are sent
	authz acl.Authorizer
}

type nextResult struct {
	ev  stream.Event
	err error
}

func (s *subscriber) key() string { return s.topic + "/" + s.svc }

type c11World struct {
	c           *Cluster
	pub         *stream.EventPublisher
	r           *simkit.Run
	subs        map[int64]*subscriber
	zombies     []*stream.Subscription       // force-closed subscriptions whose owners have not released them yet
	truth       map[string]map[uint64]string // subject key -> commit index -> canonical result
	commits     []uint64
	tokenWrites map[string]int // secret -> number of committed token writes (published or not)
	restoredAt  uint64
}

func subjectKeys() []string {
	var ks []string
	for _, svc := range DefaultUniverse().Services {
		ks = append(ks, "health/"+svc, "connect/"+svc, "resolver/"+svc, "intentions/"+svc)
	}
	ks = append(ks, "list/", "resolver*/", "intentions/*")
	return ks
}

// query evaluates the direct query equivalent to a subscription.
func (w *c11World) query(key string) string {
	st := w.c.L.State()
	parts := strings.SplitN(key, "/", 2)
	topic, svc := parts[0], parts[1]
	rows := []string{}
	switch topic {
	case "health", "connect":
		var nodes structs.CheckServiceNodes
		var err error
		if topic == "health" {
			_, nodes, err = st.CheckServiceNodes(nil, svc, nil, "")
		} else {
			_, nodes, err = st.CheckConnectServiceNodes(nil, svc, nil, "")
		}
		if err != nil {
			panic(err)
		}
		for _, n := range nodes {
			n := n
			rows = append(rows, csnKey(&n)+" = "+canonCSN(&n))
		}
	case "list":
		// the service-list topic is the list of typical services (what its snapshot function reads)
		_, names, err := st.ServiceNamesOfKind(nil, structs.ServiceKindTypical)
		if err != nil {
			panic(err)
		}
		for _, n := range names {
			rows = append(rows, n.Service.Name)
		}
	case "resolver", "intentions":
		kind := map[string]string{"resolver": structs.ServiceResolver, "intentions": structs.ServiceIntentions}[topic]
		_, e, err := st.ConfigEntry(nil, kind, svc, nil)
		if err != nil {
			panic(err)
		}
		if e != nil {
			rows = append(rows, e.GetName()+" = "+simkit.Canon(e))
		}
	case "resolver*":
		_, es, err := st.ConfigEntriesByKind(nil, structs.ServiceResolver, nil)
		if err != nil {
			panic(err)
		}
		for _, e := range es {
			rows = append(rows, e.GetName()+" = "+simkit.Canon(e))
		}
	}
	sort.Strings(rows)
	return strings.Join(rows, "\n")
}

func csnKey(n *structs.CheckServiceNode) string {
	return n.Node.PeerName + "/" + n.Node.Node + "/" + n.Service.ID
}

func canonCSN(n *structs.CheckServiceNode) string {
	// the order of a node's checks in a query result is by check id; events carry the same rows
	cp := *n
	cp.Checks = append(structs.HealthChecks{}, n.Checks...)
	sort.Slice(cp.Checks, func(i, j int) bool { return cp.Checks[i].CheckID < cp.Checks[j].CheckID })
	return simkit.Canon(&cp)
}

func (w *c11World) recordTruth(idx uint64) {
	w.commits = append(w.commits, idx)
	for _, k := range subjectKeys() {
		if w.truth[k] == nil {
			w.truth[k] = map[uint64]string{}
		}
		w.truth[k][idx] = w.query(k)
	}
}

// truthAt: the direct query result as of the newest commit with index <= i.
func (w *c11World) truthAt(key string, i uint64) (string, bool) {
	var best uint64
	found := false
	for _, c := range w.commits {
		if c <= i && c >= best {
			best, found = c, true
		}
	}
	if !found {
		return "", true // before the first commit: empty state
	}
	return w.truth[key][best], true
}

func (s *subscriber) viewString() string {
	rows := make([]string, 0, len(s.view))
	for _, k := range simkit.SortedKeys(s.view) {
		if s.topic == "list" {
			rows = append(rows, k)
		} else {
			rows = append(rows, k+" = "+s.view[k])
		}
	}
	return strings.Join(rows, "\n")
}

func (s *subscriber) applyOne(ev stream.Event) {
	switch p := ev.Payload.(type) {
	case state.EventPayloadCheckServiceNode:
		k := csnKey(p.Value)
		if p.Op == pbsubscribe.CatalogOp_Register {
			s.view[k] = canonCSN(p.Value)
		} else {
			delete(s.view, k)
		}
	case *state.EventPayloadServiceListUpdate:
		if p.Op == pbsubscribe.CatalogOp_Register {
			s.view[p.Name] = ""
		} else {
			delete(s.view, p.Name)
		}
	case state.EventPayloadConfigEntry:
		if p.Op == pbsubscribe.ConfigEntryUpdate_Upsert {
			s.view[p.Value.GetName()] = simkit.Canon(p.Value)
		} else {
			delete(s.view, p.Value.GetName())
		}
	case *stream.PayloadEvents:
		for _, it := range p.Items {
			s.applyOne(it)
		}
	default:
		panic(fmt.Sprintf("unhandled event payload %T", ev.Payload))
	}
}

func (w *c11World) subscribeReq(s *subscriber, index uint64) *stream.SubscribeRequest {
	req := &stream.SubscribeRequest{Token: s.token, Index: index}
	switch s.topic {
	case "health":
		req.Topic, req.Subject = state.EventTopicServiceHealth, state.EventSubjectService{Key: s.svc}
	case "connect":
		req.Topic, req.Subject = state.EventTopicServiceHealthConnect, state.EventSubjectService{Key: s.svc}
	case "list":
		req.Topic, req.Subject = state.EventTopicServiceList, stream.SubjectNone
	case "resolver":
		req.Topic, req.Subject = state.EventTopicServiceResolver, state.EventSubjectConfigEntry{Name: s.svc, EnterpriseMeta: structs.DefaultEnterpriseMetaInDefaultPartition()}
	case "intentions":
		req.Topic, req.Subject = state.EventTopicServiceIntentions, state.EventSubjectConfigEntry{Name: s.svc, EnterpriseMeta: structs.DefaultEnterpriseMetaInDefaultPartition()}
	case "resolver*":
		req.Topic, req.Subject = state.EventTopicServiceResolver, stream.SubjectWildcard
	}
	return req
}

func (C11) execute(p *Plan, r *simkit.Run) *simkit.Violation {
	pub := stream.NewEventPublisher(parseDur(p.Cfg.Extra["cache_ttl"], 0))
	c := NewClusterPub(r, 15*time.Minute, 30*time.Second, pub)
	w := &c11World{c: c, pub: pub, r: r, subs: map[int64]*subscriber{}, truth: map[string]map[uint64]string{}, tokenWrites: map[string]int{}}
	ctx, cancel := context.WithCancel(context.Background())
	defer func() {
		cancel()
		pub.VerifCloseAll()
		for _, s := range w.subs {
			if s.sub != nil {
				s.sub.Unsubscribe()
			}
		}
		synctest.Wait()
		c.Close()
	}()
	var viol *simkit.Violation
	cur := 0
	var curStep Step
	mk := func(class, inv, detail string) *simkit.Violation {
		return &simkit.Violation{Property: "C11", Class: class, Invariant: inv, Step: cur, Culprit: curStep.Op, Detail: detail}
	}
	c.OnCommit = func(e Entry, _ any) {
		w.recordTruth(e.Index)
		if strings.HasPrefix(e.Desc, "acl.token.") {
			w.tokenWrites["*"]++
			for _, s := range w.subs {
				s.aclTouchedSince = true
			}
		}
	}

	// collect finished Next calls and feed the views
	collect := func() {
		synctest.Wait()
		for _, id := range sortedSubIDs(w.subs) {
			s := w.subs[id]
			if s.pending == nil || viol != nil {
				continue
			}
			select {
			case res := <-s.pending:
				s.pending = nil
				if res.err != nil {
					s.closedErr = res.err
					r.Hit("probe.sub-ended." + errName(res.err))
					r.Sig("end:" + errName(res.err))
					if errors.Is(res.err, stream.ErrACLChanged) && (s.token == "" || !s.aclTouchedSince) {
						viol = mk("stale-after-close", "acl-close-only-after-acl-change", fmt.Sprintf("subscriber %d (token %q) was closed with ErrACLChanged although no token was written since it subscribed", s.id, tail8(s.token)))
					}
					s.sub.Unsubscribe()
					s.sub = nil
					continue
				}
				ev := res.ev
				r.Hit("probe.event-delivered")
				if s.authz != nil && !ev.Payload.HasReadPermission(s.authz) {
					// subscribe.go: events the token may not read are not sent
					r.Hit("probe.event-filtered-by-acl")
					continue
				}
				switch {
				case ev.IsNewSnapshotToFollow():
					s.view = map[string]string{}
					s.snapDone = false
					r.Hit("probe.new-snapshot-to-follow")
					r.Sig("nstf")
				case ev.IsEndOfSnapshot():
					s.snapDone = true
					if ev.Index < s.subMax {
						viol = mk("index-regressed", "delivered-indexes-never-decrease", fmt.Sprintf("subscriber %d (%s): end of snapshot at index %d after index %d", s.id, s.key(), ev.Index, s.subMax))
						return
					}
					s.lastIndex, s.subMax = ev.Index, ev.Index
					r.Sig("eos")
					w.checkView(s, ev.Index, "end of snapshot", mk, &viol)
				default:
					if ev.Index < s.subMax && s.snapDone {
						viol = mk("index-regressed", "delivered-indexes-never-decrease", fmt.Sprintf("subscriber %d (%s): event at index %d after index %d", s.id, s.key(), ev.Index, s.subMax))
						return
					}
					s.applyOne(ev)
					if s.snapDone {
						s.lastIndex, s.subMax = ev.Index, ev.Index
						r.Sig("ev")
						w.checkView(s, ev.Index, "event", mk, &viol)
					}
				}
			default:
			}
		}
	}

	for i, st := range p.Steps {
		cur, curStep = i, st
		r.Steps++
		switch st.Op {
		case "drain":
			for k := int64(0); k < st.N; k++ {
				if pub.VerifDrainOne() {
					r.Hit("probe.batch-published")
				}
			}
		case "sub":
			s := w.subs[st.N]
			if s != nil && s.sub != nil {
				break // still subscribed
			}
			var index uint64
			// "last"/"stale": the client resubscribes to what it was watching and resumes from an index it saw
			if s == nil || st.Idx == "zero" {
				s = &subscriber{id: st.N, topic: st.Name, svc: st.Svc, view: map[string]string{}}
				if st.Name == "list" || st.Name == "resolver*" {
					s.svc = ""
				}
				if st.Flag2 && (st.Name == "list" || st.Name == "health") {
					s.authz = c11Restricted
				}
				w.subs[st.N] = s
			}
			s.token = st.ID
			switch st.Idx {
			case "last":
				index = s.lastIndex // resume where the client left off (keeps its view)
			case "stale":
				if len(s.anyIndex) > 0 {
					index = s.anyIndex[0]
				}
			}
			if index == 0 {
				s.view, s.snapDone, s.lastIndex = map[string]string{}, false, 0
			}
			if pub.VerifPending() > 0 {
				r.Hit("probe.subscribe-in-commit-publish-gap")
			}
			sub, err := pub.Subscribe(w.subscribeReq(s, index))
			if err != nil {
				return mk("view-mismatch", "subscribe-succeeds", err.Error())
			}
			// a token write committed before this subscription but still waiting in the publish queue will
			// close it when it is drained: a forced resubscribe is always permitted
			s.sub, s.closedErr, s.aclTouchedSince = sub, nil, pub.VerifPending() > 0 && w.tokenWrites["*"] > 0
			s.subMax = 0 // (a resume that cannot be served from the buffer gets a snapshot, possibly a cached one older than the resume index)
			if index > 0 {
				r.Hit("probe.resume-from-index")
			}
			r.Sig("sub:" + st.Name + ":" + st.Idx)
		case "next":
			s := w.subs[st.N]
			if s == nil || s.sub == nil || s.pending != nil {
				break
			}
			ch := make(chan nextResult, 1)
			s.pending = ch
			sub := s.sub
			go func() {
				ev, err := sub.Next(ctx)
				ch <- nextResult{ev, err}
			}()
		case "unsub":
			if len(w.zombies) > 0 {
				w.zombies[0].Unsubscribe()
				w.zombies = w.zombies[1:]
			}
			s := w.subs[st.N]
			if s != nil && s.sub != nil {
				s.sub.Unsubscribe()
				synctest.Wait()
				if s.pending != nil {
					select {
					case <-s.pending:
					default:
					}
					s.pending = nil
				}
				s.sub = nil
			}
		default:
			// keep the publish queue below the channel capacity: a full queue blocks the commit
			for pub.VerifPending() >= 48 {
				pub.VerifDrainOne()
			}
			c.Do(st)
			if c.Fatal != nil {
				return mk("panic", "apply-does-not-panic", c.Fatal.Error())
			}
			if st.Op == "leader.install" {
				// the state may have been replaced by an older one: what a direct query returns NOW is the truth for
				// every later delivery until the next commit
				if len(w.commits) > 0 {
					last := w.commits[len(w.commits)-1]
					// (whatever index a later snapshot carries: the restored tables keep their own, older, index
					// entries, and a restore is not bound to reproduce the spelling a derived row had, see C02)
					for _, k := range subjectKeys() {
						now := w.query(k)
						for _, c := range w.commits {
							w.truth[k][c] = now
						}
					}
					w.restoredAt = last
				}
				// every FSM-topic subscription must now end with ErrSubForceClosed
				for _, id := range sortedSubIDs(w.subs) {
					s := w.subs[id]
					if s.sub == nil {
						continue
					}
					if s.pending == nil {
						ch := make(chan nextResult, 1)
						s.pending = ch
						sub := s.sub
						go func() { ev, err := sub.Next(ctx); ch <- nextResult{ev, err} }()
					}
				}
				synctest.Wait()
				for _, id := range sortedSubIDs(w.subs) {
					s := w.subs[id]
					if s.sub == nil || s.pending == nil {
						continue
					}
					select {
					case res := <-s.pending:
						s.pending = nil
						if res.err == nil || !(errors.Is(res.err, stream.ErrSubForceClosed) || errors.Is(res.err, stream.ErrACLChanged)) {
							return mk("stale-after-close", "restore-force-closes-subscriptions", fmt.Sprintf("subscriber %d (%s) survived a snapshot restore: next returned (%v, %v)", s.id, s.key(), res.ev.Index, res.err))
						}
						if st.Flag2 {
							// the owner has seen the error but releases the subscription later (after it resubscribed)
							w.zombies = append(w.zombies, s.sub)
							r.Hit("probe.force-closed-subscription-released-late")
						} else {
							s.sub.Unsubscribe()
						}
						s.sub = nil
						// the client must reset its state and resubscribe
						s.view, s.snapDone, s.lastIndex = map[string]string{}, false, 0
						r.Hit("probe.force-closed-by-restore")
					default:
						return mk("stale-after-close", "restore-force-closes-subscriptions", fmt.Sprintf("subscriber %d (%s) is still blocked after a snapshot restore", s.id, s.key()))
					}
				}
			}
		}
		collect()
		if viol != nil {
			return viol
		}
	}
	// quiescence: publish everything, let every subscriber read until it blocks; views equal current truth
	cur, curStep = len(p.Steps), Step{Op: "quiesce"}
	for round := 0; round < 400; round++ {
		progressed := pub.VerifDrainOne()
		for _, id := range sortedSubIDs(w.subs) {
			s := w.subs[id]
			if s.sub != nil && s.pending == nil {
				ch := make(chan nextResult, 1)
				s.pending = ch
				sub := s.sub
				go func() { ev, err := sub.Next(ctx); ch <- nextResult{ev, err} }()
				progressed = true
			}
		}
		before := r.Counters["probe.event-delivered"]
		collect()
		if viol != nil {
			return viol
		}
		if r.Counters["probe.event-delivered"] != before {
			progressed = true
		}
		if !progressed && pub.VerifPending() == 0 {
			break
		}
	}
	last := uint64(0)
	if len(w.commits) > 0 {
		last = w.commits[len(w.commits)-1]
	}
	for _, id := range sortedSubIDs(w.subs) {
		s := w.subs[id]
		if s.sub == nil || !s.snapDone {
			continue
		}
		want, _ := w.truthAt(s.key(), last)
		want = s.asSeenBy(want)
		if got := s.viewString(); got != want {
			return mk("catchup-liveness", "caught-up-view-equals-current-state", fmt.Sprintf("subscriber %d (%s), everything published and consumed, view differs from the direct query:\n%s", s.id, s.key(), simkit.FirstDiff(got, want)))
		}
		r.Hit("probe.quiescent-view-checked")
	}
	r.Nontrivial = len(w.commits) >= 3 && r.Counters["probe.event-delivered"] > 0
	return nil
}

func (w *c11World) checkView(s *subscriber, idx uint64, what string, mk func(string, string, string) *simkit.Violation, viol **simkit.Violation) {
	want, _ := w.truthAt(s.key(), idx)
	want = s.asSeenBy(want)
	got := s.viewString()
	s.anyIndex = append(s.anyIndex, idx)
	w.r.Hit("probe.view-checked")
	if got != want {
		*viol = mk("view-mismatch", "view-equals-query-at-delivered-index", fmt.Sprintf("subscriber %d (%s) after %s at index %d: materialized view differs from the direct query at that index (A=view, B=query):\n%s",
			s.id, s.key(), what, idx, simkit.FirstDiff(got, want)))
	}
}

func sortedSubIDs(m map[int64]*subscriber) []int64 {
	ids := make([]int64, 0, len(m))
	for id := range m {
		ids = append(ids, id)
	}
	sort.Slice(ids, func(i, j int) bool { return ids[i] < ids[j] })
	return ids
}

func errName(err error) string {
	switch {
	case errors.Is(err, stream.ErrSubForceClosed):
		return "force-closed"
	case errors.Is(err, stream.ErrACLChanged):
		return "acl-changed"
	case errors.Is(err, stream.ErrShuttingDown):
		return "shutting-down"
	case errors.Is(err, context.Canceled):
		return "cancelled"
	}
	return "other"
}

// c11Restricted: node:read everywhere, service:read on "web" only (in both spellings the generator
// uses: ACL rules match names exactly, the catalog and the stream subjects do not).
var c11Restricted = func() acl.Authorizer {
	pol, err := acl.NewPolicyFromSource(`node_prefix "" { policy = "read" } service "web" { policy = "read" } service "Web" { policy = "read" }`, nil, nil)
	if err != nil {
		panic(err)
	}
	a, err := acl.NewPolicyAuthorizerWithDefaults(acl.DenyAll(), []*acl.Policy{pol}, nil)
	if err != nil {
		panic(err)
	}
	return a
}()

// asSeenBy: the direct query result as the subscriber's token may read it.
func (s *subscriber) asSeenBy(want string) string {
	if s.authz == nil {
		return want
	}
	switch {
	case s.topic == "list":
		var keep []string
		for _, name := range strings.Split(want, "\n") {
			if strings.EqualFold(name, "web") {
				keep = append(keep, name)
			}
		}
		return strings.Join(keep, "\n")
	case s.svc != "web":
		return ""
	}
	return want
}
