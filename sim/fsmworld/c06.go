//go:build verif

package fsmworld

import (
	"errors"
	"fmt"
	"math/rand/v2"
	"strings"
	"testing"
	"testing/synctest"
	"time"

	"github.com/hashicorp/go-memdb"

	"github.com/hashicorp/consul/agent/blockingquery"
	"github.com/hashicorp/consul/agent/consul"
	"github.com/hashicorp/consul/agent/consul/state"
	"github.com/hashicorp/consul/agent/structs"
	"github.com/hashicorp/consul/internal/verifsim/simkit"
)

// C06: blocking-query contract. Around EVERY committed log entry, for every
// query of the battery: result changed => index strictly grew AND a channel of
// the watch set collected with the old result fired; the index never decreases
// except across restore / tombstone reaping; through the real
// blockingquery.Query the reported index is never zero and a parked query whose
// result changed has returned.
type C06 struct{}

func (C06) Decode(raw []byte) (simkit.Plan, error) { return DecodePlan(raw) }

func (C06) Generate(rng *rand.Rand, tier string, runIdx uint64) simkit.Plan {
	u := DefaultUniverse()
	w := FullWeights(rng)
	w.Snapshot, w.Restart = 1, 1
	w.Reap = 3
	if simkit.Chance(rng, 40) {
		// catalog-heavy runs
		w.Register, w.Deregister, w.Ext = 40, 20, 10
	}
	w.CaseVariants = simkit.Chance(rng, 30)
	g := NewGen(rng, u, w)
	n := 10 + rng.IntN(60)
	p := &Plan{Cfg: Cfg{GCTTL: simkit.Pick(rng, []string{"15m", "30s"}), GCGran: "1s", WatchLimit: simkit.Pick(rng, []int{0, 0, 1, 8})}}
	p.Cfg.Extra = map[string]string{"dualstack": simkit.Pick(rng, []string{"off", "off", "on"})}
	p.Steps = append(p.Steps, Prelude(rng, g)...)
	for len(p.Steps) < n {
		if simkit.Chance(rng, 4) {
			p.Steps = append(p.Steps, g.Macro()...)
			continue
		}
		if simkit.Chance(rng, 4) {
			// a service-level check that is registered again, under the same id, for another service of its node
			node := g.pick(u.Nodes)
			a, b := u.Services[rng.IntN(len(u.Services))], u.Services[rng.IntN(len(u.Services))]
			p.Steps = append(p.Steps,
				Step{Op: "register", Node: node, Svc: a, Port: 8000},
				Step{Op: "register", Node: node, Svc: b, Port: 8001},
				Step{Op: "register", Node: node, SkipNode: true, Checks: []Check{{ID: "cmove", Status: g.status(), SvcID: a}}},
				Step{Op: "register", Node: node, SkipNode: true, Checks: []Check{{ID: "cmove", Status: g.status(), SvcID: b}}})
			continue
		}
		p.Steps = append(p.Steps, g.Next())
	}
	return p
}

func (w C06) Execute(t *testing.T, pl simkit.Plan, r *simkit.Run) (v *simkit.Violation) {
	if err := simkit.Bubble(t, func() { v = w.execute(pl.(*Plan), r) }); err != nil {
		return &simkit.Violation{Class: "harness-panic", Invariant: "no-escaped-panic", Detail: err.Error()}
	}
	return v
}

// c06Skip: query groups outside the read endpoints the property quantifies over (KV, sessions,
// catalog, health, config entries, intentions, prepared queries, coordinates, CA roots, peering).
// "acl": token/role lists resolve links at read time, so creating a policy changes a token listing
// without touching the token; "chain"/"topology": computed views; "internal": not client endpoints.
var c06Skip = map[string]bool{"chain": true, "topology": true, "internal": true, "acl": true, "fed": true, "meta": true, "vip": true}

type fsmServer struct {
	c        *Cluster
	shutdown chan struct{}
	blocking uint64
	shells   map[*consul.Server]bool // shells on which real read endpoints have parked queries
}

func (f *fsmServer) ConsistentRead() error             { return nil }
func (f *fsmServer) DecrementBlockingQueries() uint64  { f.blocking--; return f.blocking }
func (f *fsmServer) IncrementBlockingQueries() uint64  { f.blocking++; return f.blocking }
func (f *fsmServer) GetShutdownChannel() chan struct{} { return f.shutdown }
func (f *fsmServer) GetState() *state.Store            { return f.c.L.State() }
func (f *fsmServer) RPCQueryTimeout(d time.Duration) time.Duration {
	if d <= 0 {
		return 5 * time.Minute
	}
	return d
}
func (f *fsmServer) SetQueryMeta(m blockingquery.ResponseMeta, token string) {
	consul.VerifSetQueryMeta(f.c.Shell, m, token)
}

type bqTask struct {
	q       Query
	min     uint64
	lastRes string
	// received: the result of the last answer the caller got
	received string
	// endpoint: the query is served by the real RPC endpoint (KVS.Get), not by a closure of this harness
	endpoint bool
	done     chan struct{}
	idx      uint64
	res      string
	err      error
	started  time.Time
}

func (t *bqTask) start(fs *fsmServer) {
	t.done = make(chan struct{})
	t.started = time.Now()
	min := t.min
	if t.endpoint && strings.HasPrefix(t.q.Name, "KVSGet(") {
		// the real KVS.Get endpoint on the leader's shell, parked on the fake clock like the others
		shell := fs.c.Shell
		if err := consul.VerifServeReads(shell); err != nil {
			panic(err)
		}
		fs.shells[shell] = true
		go func() {
			defer close(t.done)
			args := &structs.KeyRequest{Datacenter: "dc1", Key: t.q.Key, QueryOptions: structs.QueryOptions{MinQueryIndex: min, MaxQueryTime: 5 * time.Minute}}
			var reply structs.IndexedDirEntries
			err := consul.VerifKVSGet(shell, args, &reply)
			var ent *structs.DirEntry
			if len(reply.Entries) > 0 {
				ent = reply.Entries[0]
			}
			t.idx, t.res, t.err = reply.Index, simkit.CanonOpt(ent, nil, false)+"|", err
		}()
		return
	}
	go func() {
		defer close(t.done)
		opts := structs.QueryOptions{MinQueryIndex: min, MaxQueryTime: 5 * time.Minute}
		var meta structs.QueryMeta
		var res string
		err := blockingquery.Query(fs, &opts, &meta, func(ws memdb.WatchSet, s *state.Store) error {
			qr := t.q.Eval(s, ws)
			meta.Index = qr.Index
			res = qr.Result + "|" + qr.Err
			if t.q.Single && qr.Err == "" {
				// what the endpoints of single-item reads do: "no such item" is not an answer to wait on,
				// unless the item was there before (then the caller must hear that it is gone: what the
				// scheduler believes the query has seen is not updated here)
				if qr.Result == "nil" { // (judged on the one read just made: a second read could see a later state)
					t.lastRes = t.received // the caller still believes what it last received
					return blockingquery.ErrNotFound
				}
			}
			t.lastRes = res // what the parked query last evaluated (read by the scheduler only after synctest.Wait)
			if qr.Err != "" {
				return errors.New(qr.Err) // an erroring query is answered at once, it never parks
			}
			return nil
		})
		t.idx, t.res, t.err = meta.Index, res, err
	}()
}

type evalState struct {
	res []QResult
	wss []memdb.WatchSet
}

func evalAll(qs []Query, s *state.Store) evalState {
	es := evalState{res: make([]QResult, len(qs)), wss: make([]memdb.WatchSet, len(qs))}
	for i, q := range qs {
		ws := memdb.NewWatchSet()
		es.res[i] = q.Eval(s, ws)
		if es.res[i].Index < 1 {
			es.res[i].Index = 1 // what the endpoint reports (rpc.go SetQueryMeta)
		}
		es.wss[i] = ws
	}
	return es
}

func fired(ws memdb.WatchSet) bool {
	for ch := range ws {
		select {
		case <-ch:
			return true
		default:
		}
	}
	return false
}

func (C06) execute(p *Plan, r *simkit.Run) *simkit.Violation {
	setDualStack(p.Cfg.Extra["dualstack"] == "on")
	setWatchLimit(p.Cfg.WatchLimit)
	defer setWatchLimit(0)
	c := NewCluster(r, parseDur(p.Cfg.GCTTL, 15*time.Minute), parseDur(p.Cfg.GCGran, 30*time.Second))
	defer c.Close()
	keys, sessions := planNames(p)
	battery := Battery(DefaultUniverse(), keys, sessions, BatteryExtra{Names: []string{"web-sidecar-proxy", "igw", "tgw", "mgw"}})
	var viol *simkit.Violation
	cur := -1
	var curStep Step
	mk := func(class, inv, culprit, detail string) *simkit.Violation {
		return &simkit.Violation{Property: "C06", Class: class, Invariant: inv, Step: cur, Culprit: culprit, Detail: detail}
	}
	prev := evalAll(battery, c.L.State())
	prevStore := c.L.State()
	gwPrev := ""

	// a few queries go through the real blockingquery.Query, parked on the fake clock
	fs := &fsmServer{c: c, shutdown: make(chan struct{}), shells: map[*consul.Server]bool{}}
	var tasks []*bqTask
	pickQ := simkit.NewRNG(uint64(len(p.Steps))*7919 + uint64(len(battery)))
	var singles []Query
	for _, q := range battery {
		if q.Single {
			singles = append(singles, q)
		}
	}
	for i := 0; i < 8; i++ {
		q := battery[pickQ.IntN(len(battery))]
		if i >= 5 && len(singles) > 0 {
			// reads of one item wait differently (not-found is not an answer): always have some
			q = singles[pickQ.IntN(len(singles))]
		}
		if q.NoWatch || q.NoIndex || q.UsageMetric || c06Skip[q.Group] {
			continue
		}
		qr := q.Eval(c.L.State(), nil)
		idx := qr.Index
		if idx < 1 {
			idx = 1
		}
		t := &bqTask{q: q, min: idx, lastRes: qr.Result + "|" + qr.Err, received: qr.Result + "|" + qr.Err}
		t.endpoint = q.Key != "" && qr.Err == "" && pickQ.IntN(2) == 0
		t.start(fs)
		tasks = append(tasks, t)
	}
	// the endpoint battery: a sample of the real read endpoints, evaluated around every entry like the
	// store-level battery, and a few of them parked
	var eps []EPQuery
	var prevEP []epResult
	var epTasks []*epTask
	evalEP := func() []epResult {
		shell := c.Shell
		if err := consul.VerifServeReads(shell); err != nil {
			panic(err)
		}
		fs.shells[shell] = true
		out := make([]epResult, len(eps))
		for i, q := range eps {
			out[i] = q.Call(shell, 0)
		}
		return out
	}
	if p.Cfg.Extra["endpoints"] != "off" {
		all := EPBattery(DefaultUniverse(), keys, sessions, BatteryExtra{Names: []string{"web-sidecar-proxy", "igw", "tgw", "mgw"}})
		pickE := simkit.NewRNG(uint64(len(p.Steps))*104729 + uint64(len(all)))
		for _, i := range pickE.Perm(len(all)) {
			if len(eps) < 48 {
				eps = append(eps, all[i])
			}
		}
		prevEP = evalEP()
		for i := 0; i < 6 && i < len(eps); i++ {
			q := eps[pickE.IntN(len(eps))]
			if prevEP0 := q.Call(c.Shell, 0); prevEP0.Err == "" {
				t := &epTask{q: q, min: prevEP0.Index, received: prevEP0.NoIdx}
				t.start(fs)
				epTasks = append(epTasks, t)
			}
		}
	}
	defer func() {
		close(fs.shutdown)
		for sh := range fs.shells {
			consul.VerifStopReads(sh)
		}
		synctest.Wait()
	}()

	afterCommit := func(e Entry) {
		// the parked queries woken by this commit evaluate now, against this state - not at some later point
		// of a step that goes on (a lost reply is followed by a failover and a replay into a new store)
		synctest.Wait()
		if viol != nil {
			return
		}
		store := c.L.State()
		now := evalAll(battery, store)
		isReap := strings.HasPrefix(e.Desc, "reap")
		// known finding C06-connect-health-index-slides-back: did this entry change the gateway links?
		gwNow := strings.Join(c.L.Dump()["gateway-services"], "\n")
		gwChanged := gwNow != gwPrev
		gwPrev = gwNow
		if store == prevStore {
			for i, q := range battery {
				if q.UsageMetric || c06Skip[q.Group] {
					// not among the read endpoints the property quantifies over (usage metrics; compiled
					// discovery chains and service topology are computed views whose index covers only
					// part of their inputs - e.g. a chain embeds virtual IPs but reports the config-entry index)
					continue
				}
				b, a := prev.res[i], now.res[i]
				changed := b.Result != a.Result || (b.Err == "") != (a.Err == "")
				if changed && strings.HasPrefix(q.Name, "IntentionMatch(src=") && (flipsDestinationKind(e.Desc) || (strings.HasPrefix(e.Desc, "ce.") && !fired(prev.wss[i]))) {
					// known finding C06-intention-source-match-unwatched-destination-kind: the source match
					// filters by whether each destination is a service or a mesh "destination", an input it
					// neither watches nor indexes; tolerated only for entries that can flip that input
					r.Hit("known-finding.C06-intention-source-match-unwatched-destination-kind")
					continue
				}
				if changed && a.Index <= b.Index && gwChanged && (strings.HasPrefix(q.Name, "CheckConnectServiceNodes") || strings.HasPrefix(q.Name, "CheckIngressServiceNodes") || strings.HasPrefix(q.Name, "ConnectServiceNodes")) {
					r.Hit("known-finding.C06-connect-health-index-slides-back")
					continue
				}
				if changed {
					r.Hit("probe.result-changed")
					if a.Err == "" && b.Err == "" && a.Index <= b.Index && strings.HasPrefix(q.Name, "KVSList(") && a.Result == "[]" && strings.Contains(e.Desc, "kv.delete-tree") {
						// known finding C06-kv-list-index-after-parent-delete-tree
						r.Hit("known-finding.C06-kv-list-index-after-parent-delete-tree")
						continue
					}
					if a.Err == "" && b.Err == "" && a.Index <= b.Index && !q.NoIndex {
						viol = mk("missed-change", "changed-result-has-larger-index", opOfDesc(e.Desc)+":"+q.Group,
							fmt.Sprintf("entry %d (%s) changed the result of %s but its index went %d -> %d\n  before: %s\n  after:  %s", e.Index, e.Desc, q.Name, b.Index, a.Index,
								simkit.Trunc(b.Result, 700), simkit.Trunc(a.Result, 700)))
						return
					}
					if !fired(prev.wss[i]) && !q.NoWatch {
						viol = mk("not-woken", "changed-result-fires-watch", opOfDesc(e.Desc)+":"+q.Group,
							fmt.Sprintf("entry %d (%s) changed the result of %s but no channel of the watch set collected with the old result fired (%d channels)\n  before: %s\n  after:  %s",
								e.Index, e.Desc, q.Name, len(prev.wss[i]), simkit.Trunc(b.Result, 700), simkit.Trunc(a.Result, 700)))
						return
					}
				}
				if a.Index < b.Index && gwChanged && (strings.HasPrefix(q.Name, "CheckConnectServiceNodes") || strings.HasPrefix(q.Name, "CheckIngressServiceNodes") || strings.HasPrefix(q.Name, "ConnectServiceNodes")) {
					r.Hit("known-finding.C06-connect-health-index-slides-back")
					continue
				}
				if a.Index < b.Index && !isReap && a.Err == "" && b.Err == "" && !q.NoIndex {
					viol = mk("index-regressed", "index-never-decreases", opOfDesc(e.Desc)+":"+q.Group,
						fmt.Sprintf("entry %d (%s): index of %s went %d -> %d (gateway links changed in this entry: %v)", e.Index, e.Desc, q.Name, b.Index, a.Index, gwChanged))
					return
				}
			}
		}
		if len(eps) > 0 {
			nowEP := evalEP()
			if store == prevStore {
				for i, q := range eps {
					b, a := prevEP[i], nowEP[i]
					if a.Err != "" || b.Err != "" {
						continue
					}
					if a.Index == 0 {
						viol = mk("index-zero", "reported-index-never-zero", opOfDesc(e.Desc)+":"+q.Group, fmt.Sprintf("endpoint %s reported index 0 after entry %d (%s)", q.Name, e.Index, e.Desc))
						return
					}
					changed := b.Result != a.Result
					if changed {
						r.Hit("probe.endpoint-result-changed")
					}
					if a.Index <= b.Index && (changed || a.Index < b.Index) {
						switch {
						case gwChanged && likeConnectHealth(q.Like):
							r.Hit("known-finding.C06-connect-health-index-slides-back")
							continue
						case changed && q.Like == "KVSList(" && a.Empty && strings.Contains(e.Desc, "kv.delete-tree"):
							r.Hit("known-finding.C06-kv-list-index-after-parent-delete-tree")
							continue
						case changed && q.Like == "IntentionMatch(src=" && flipsDestinationKind(e.Desc):
							r.Hit("known-finding.C06-intention-source-match-unwatched-destination-kind")
							continue
						}
					}
					if changed && a.Index <= b.Index {
						viol = mk("missed-change", "changed-result-has-larger-index", opOfDesc(e.Desc)+":ep:"+q.Group,
							fmt.Sprintf("entry %d (%s) changed the reply of endpoint %s but its index went %d -> %d\n  before: %s\n  after:  %s", e.Index, e.Desc, q.Name, b.Index, a.Index,
								first(diffAt(b.Result, a.Result, 700)), second(diffAt(b.Result, a.Result, 700))))
						return
					}
					if a.Index < b.Index && !isReap {
						viol = mk("index-regressed", "index-never-decreases", opOfDesc(e.Desc)+":ep:"+q.Group,
							fmt.Sprintf("entry %d (%s): index of endpoint %s went %d -> %d", e.Index, e.Desc, q.Name, b.Index, a.Index))
						return
					}
				}
			}
			prevEP = nowEP
		}
		prev, prevStore = now, store
	}
	c.OnCommit = func(e Entry, _ any) { afterCommit(e) }

	foStep := 0
	checkTasks := func(what string) {
		synctest.Wait()
		for _, t := range tasks {
			select {
			case <-t.done:
				r.Hit("probe.blocking-query-returned")
				if t.err != nil {
					t.lastRes, t.received = t.res, t.res
				}
				if t.err == nil {
					if t.idx == 0 {
						viol = mk("index-zero", "reported-index-never-zero", what, fmt.Sprintf("blocking query %s returned index 0", t.q.Name))
						return
					}
					t.lastRes, t.received = t.res, t.res
					if t.idx > t.min {
						t.min = t.idx
					}
				}
				t.start(fs)
			default:
				// still parked: its result must not have changed
				qr := t.q.Eval(c.L.State(), nil)
				if qr.Result+"|"+qr.Err != t.lastRes && qr.Err == "" {
					viol = mk("not-woken", "parked-query-returns-when-result-changes", what+":"+t.q.Group,
						fmt.Sprintf("after %s: %s is still parked on index %d although its result changed\n  seen:    %s\n  current: %s (index %d)", what, t.q.Name, t.min,
							simkit.Trunc(t.lastRes, 600), simkit.Trunc(qr.Result, 600), qr.Index))
					return
				}
				r.Hit("probe.blocking-query-still-parked")
			}
		}
		for _, t := range epTasks {
			select {
			case <-t.done:
				r.Hit("probe.endpoint-query-returned")
				if t.out.Err == "" {
					if t.out.Index == 0 {
						viol = mk("index-zero", "reported-index-never-zero", what, fmt.Sprintf("blocking endpoint call %s returned index 0", t.q.Name))
						return
					}
					// what a blocked caller is handed at index I is what an unblocked caller reads at index I (an
					// endpoint evaluates its query function several times into the same reply while it waits)
					if cur := t.q.Call(c.Shell, 0); cur.Err == "" && cur.Index == t.out.Index && cur.NoIdx != t.out.NoIdx && c.Failovers == foStep {
						viol = mk("stale-reply", "blocked-reply-equals-unblocked-reply-at-the-same-index", what+":ep:"+t.q.Group,
							fmt.Sprintf("after %s: the blocked call %s returned at index %d with a reply that differs from the unblocked reply at that index\n  blocked:   %s\n  unblocked: %s", what, t.q.Name, t.out.Index,
								first(diffAt(t.out.NoIdx, cur.NoIdx, 900)), second(diffAt(t.out.NoIdx, cur.NoIdx, 900))))
						return
					}
					t.received = t.out.NoIdx
					if t.out.Index > t.min {
						t.min = t.out.Index
					}
				}
				t.start(fs)
			default:
				// still parked: what the endpoint would answer now is what the caller already has
				cur := t.q.Call(c.Shell, 0)
				if cur.Err == "" && cur.NoIdx != t.received && t.q.Like == "IntentionMatch(src=" && flipsDestinationKind(what) {
					// known finding C06-intention-source-match-unwatched-destination-kind (see afterCommit)
					r.Hit("known-finding.C06-intention-source-match-unwatched-destination-kind")
					t.received = cur.NoIdx
					continue
				}
				if cur.Err == "" && cur.NoIdx != t.received && likeConnectHealth(t.q.Like) && cur.Index <= t.min && strings.HasPrefix(what, "ce.") {
					// known finding C06-connect-health-index-slides-back: a gateway link of the service was removed
					// and the reported index fell back to (or below) what the caller already has
					r.Hit("known-finding.C06-connect-health-index-slides-back")
					t.received = cur.NoIdx
					continue
				}
				if cur.Err == "" && cur.NoIdx != t.received && t.q.Like == "KVSList(" && cur.Empty && cur.Index <= t.min && strings.Contains(what, "kv.delete-tree") {
					// known finding C06-kv-list-index-after-parent-delete-tree (see afterCommit)
					r.Hit("known-finding.C06-kv-list-index-after-parent-delete-tree")
					t.received = cur.NoIdx
					continue
				}
				if cur.Err == "" && cur.NoIdx != t.received {
					viol = mk("not-woken", "parked-query-returns-when-result-changes", what+":ep:"+t.q.Group,
						fmt.Sprintf("after %s: endpoint call %s is still parked on index %d although its reply changed\n  received: %s\n  current:  %s (index %d)", what, t.q.Name, t.min,
							first(diffAt(t.received, cur.NoIdx, 600)), second(diffAt(t.received, cur.NoIdx, 600)), cur.Index))
					return
				}
				r.Hit("probe.endpoint-query-still-parked")
			}
		}
	}

	for i, s := range p.Steps {
		cur, curStep = i, s
		_ = curStep
		r.Steps++
		r.Sig(s.Op)
		fo := c.Failovers
		foStep = fo
		c.Do(s)
		if c.Fatal != nil {
			return mk("panic", "apply-does-not-panic", s.Op, c.Fatal.Error())
		}
		if viol != nil {
			return viol
		}
		if c.Failovers != fo {
			prev, prevStore = evalAll(battery, c.L.State()), c.L.State()
			if len(eps) > 0 {
				prevEP = evalEP()
			}
			r.Hit("probe.store-replaced")
		}
		checkTasks(s.Short())
		if viol != nil {
			return viol
		}
	}
	r.Nontrivial = len(c.Log) >= 3
	return nil
}

func first(a, _ string) string  { return a }
func second(_, b string) string { return b }

// flipsDestinationKind: the entry can change whether a name is a registered catalog service - the unwatched input of
// known finding C06-intention-source-match-unwatched-destination-kind: a (de)registration, directly or as a
// transaction verb.
func flipsDestinationKind(desc string) bool {
	for _, w := range []string{"register", "service.set", "service.cas", "service.delete", "node.delete"} {
		if strings.Contains(desc, w) {
			return true
		}
	}
	return false
}
