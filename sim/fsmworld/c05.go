//go:build verif

package fsmworld

import (
	"fmt"
	"math/rand/v2"
	"regexp"
	"strings"
	"testing"
	"time"

	"github.com/hashicorp/go-memdb"

	"github.com/hashicorp/consul/agent/consul"
	"github.com/hashicorp/consul/agent/structs"
	"github.com/hashicorp/consul/internal/verifsim/simkit"
)

// C05: transactions are all-or-nothing and isolated.
//
// Plan = a prefix history (pre-state) followed by ONE transaction step (the last
// step). For that transaction the executor enumerates a failing operation at
// EVERY position 0..n (several kinds of failing op), each of which must leave
// no trace anywhere (tables incl. index/tombstones/usage/virtual IPs, watch
// channels, published events, tombstone-GC hints, lock-delay), then the
// transaction as generated (which may succeed or fail on its own), then the
// same operation list through the read-only path.
type C05 struct{}

func (C05) Decode(raw []byte) (simkit.Plan, error) { return DecodePlan(raw) }

func (C05) Generate(rng *rand.Rand, tier string, runIdx uint64) simkit.Plan {
	u := DefaultUniverse()
	u.Keys = []string{"a", "a/b", "ab", "b", "a/", "a/b/c"}
	w := Weights{Register: 30, Deregister: 6, KV: 25, Session: 14, Txn: 6, Advance: 3, Kinds: true, Ext: 6}
	if simkit.Chance(rng, 50) {
		w.Peer = true
	}
	g := NewGen(rng, u, w)
	n := 4 + rng.IntN(30)
	p := &Plan{Cfg: Cfg{GCTTL: "15m", GCGran: "30s", WatchLimit: simkit.Pick(rng, []int{0, 0, 1, 8})}}
	if simkit.Chance(rng, 50) {
		p.Steps = append(p.Steps, Step{Op: "sysmeta.set", Key: "virtual-ips", Val: "true"})
	}
	p.Steps = append(p.Steps, Step{Op: "register", Node: "n1", NodeID: NodeUUID(1), Addr: "10.0.0.1", Checks: []Check{{ID: "serfHealth", Status: "passing"}}})
	for len(p.Steps) < n {
		p.Steps = append(p.Steps, g.Next())
	}
	// the transaction under test: biased to cascading verbs
	t := Step{Op: "txn"}
	k := 1 + rng.IntN(7)
	for i := 0; i < k; i++ {
		if simkit.Chance(rng, 25) {
			t.Ops = append(t.Ops, g.cascadingTxnOp())
		} else {
			t.Ops = append(t.Ops, g.TxnOp())
		}
	}
	p.Steps = append(p.Steps, t)
	return p
}

// cascadingTxnOp: verbs whose effect reaches beyond their own row.
func (g *Gen) cascadingTxnOp() Step {
	switch g.R.IntN(5) {
	case 0:
		return Step{Op: "node.delete", Node: g.pick(g.U.Nodes)}
	case 1:
		s := Step{Node: g.pick(g.U.Nodes), Op: "service.set"}
		g.fillService(&s)
		return s
	case 2:
		return Step{Op: "check.set", Node: g.pick(g.U.Nodes), Checks: []Check{{ID: g.pick(g.U.Checks), Status: "critical"}}}
	case 3:
		return Step{Op: "session.delete", Sess: g.sess()}
	}
	return Step{Op: "kv.delete-tree", Key: g.pick([]string{"", "a", "a/"})}
}

// failingOps: operations that pass the endpoint pre-check but fail inside the state store.
func failingOps() []Step {
	return []Step{
		{Op: "kv.check-index", Key: "verif/never-written", Idx: "7"},
		{Op: "kv.get", Key: "verif/never-written"},
		{Op: "kv.cas", Key: "verif/guard", Val: "x", Idx: "future"},
		{Op: "kv.delete-cas", Key: "verif/guard", Idx: "future"},
		{Op: "kv.check-session", Key: "verif/guard", Sess: SessionUUID(999)},
		{Op: "service.get", Node: "verif-no-such-node", SvcID: "nope"},
		{Op: "node.get", Node: "verif-no-such-node"},
		// compare-and-set verbs whose supplied index can never match ("stale" never resolves to the current index)
		{Op: "node.cas", Node: "n1", Addr: "10.0.0.1", Idx: "stale"},
		{Op: "node.delete-cas", Node: "n1", Idx: "stale"},
		{Op: "service.cas", Node: "n1", Svc: "web", Port: 8000, Idx: "stale"},
		{Op: "service.delete-cas", Node: "n1", Svc: "web", Idx: "stale"},
		{Op: "check.cas", Node: "n1", Checks: []Check{{ID: "serfHealth", Status: "passing"}}, Idx: "stale"},
		{Op: "check.delete-cas", Node: "n1", Checks: []Check{{ID: "serfHealth"}}, Idx: "stale"},
		{Op: "kv.lock", Key: "verif/guard", Sess: SessionUUID(998)},
		// deleting a session is a checked verb: a session that does not exist fails the transaction
		{Op: "session.delete", Sess: SessionUUID(997)},
	}
}

// isolationProbes: [write E; compare-and-set E with the index E had BEFORE the transaction]. The second
// op must see the first one's effect (the index moved, or the entity now exists) and fail, which fails the
// whole transaction.
func isolationProbes() [][]Step {
	return [][]Step{
		{{Op: "kv.set", Key: "verif/ryw", Val: "x"}, {Op: "kv.cas", Key: "verif/ryw", Val: "y", Idx: "cur"}},
		{{Op: "node.set", Node: "n1", Addr: "10.0.9.9"}, {Op: "node.cas", Node: "n1", Addr: "10.0.9.8", Idx: "cur"}},
		{{Op: "service.set", Node: "n1", Svc: "web", Port: 8111}, {Op: "service.cas", Node: "n1", Svc: "web", Port: 8112, Idx: "cur"}},
		{{Op: "check.set", Node: "n1", Checks: []Check{{ID: "verif-c", Status: "passing"}}}, {Op: "check.cas", Node: "n1", Checks: []Check{{ID: "verif-c", Status: "warning"}}, Idx: "cur"}},
		{{Op: "check.delete", Node: "n1", Checks: []Check{{ID: "serfHealth"}}}, {Op: "check.delete-cas", Node: "n1", Checks: []Check{{ID: "serfHealth"}}, Idx: "cur"}},
		{{Op: "kv.delete", Key: "verif/guard"}, {Op: "kv.check-index", Key: "verif/guard", Idx: "cur"}},
	}
}

func (w C05) Execute(t *testing.T, pl simkit.Plan, r *simkit.Run) (v *simkit.Violation) {
	if err := simkit.Bubble(t, func() { v = w.execute(pl.(*Plan), r) }); err != nil {
		return &simkit.Violation{Class: "harness-panic", Invariant: "no-escaped-panic", Detail: err.Error()}
	}
	return v
}

var modifyIdxRx = regexp.MustCompile(`ModifyIndex:(\d+)`)

type sideState struct {
	dump    Dump
	batches int
	gcPend  bool
	delay   map[string]time.Time
}

func captureSide(c *Cluster, keys []string) sideState {
	s := sideState{dump: c.L.Dump(), batches: len(c.L.Pub.batches), gcPend: c.L.GC.PendingExpiration(), delay: map[string]time.Time{}}
	for _, k := range keys {
		if k != "" {
			s.delay[k] = c.L.State().KVSLockDelay(k, nil)
		}
	}
	return s
}

func (C05) execute(p *Plan, r *simkit.Run) *simkit.Violation {
	if len(p.Steps) == 0 || p.Steps[len(p.Steps)-1].Op != "txn" {
		return nil // shrunk away the transaction: nothing to decide
	}
	setWatchLimit(p.Cfg.WatchLimit)
	defer setWatchLimit(0)
	c := NewCluster(r, parseDur(p.Cfg.GCTTL, 15*time.Minute), parseDur(p.Cfg.GCGran, 30*time.Second))
	defer c.Close()
	prefix, txn := p.Steps[:len(p.Steps)-1], p.Steps[len(p.Steps)-1]
	// a guard key the failing ops refer to
	c.Do(Step{Op: "kv.set", Key: "verif/guard", Val: "g"})
	for _, s := range prefix {
		r.Steps++
		c.Do(s)
		if c.Fatal != nil {
			return &simkit.Violation{Property: "C05", Class: "panic", Invariant: "apply-does-not-panic", Step: r.Steps, Culprit: s.Op, Detail: c.Fatal.Error()}
		}
	}
	// ops the endpoint pre-check refuses never reach the log: drop them from the transaction under
	// test (deterministically) so that every enumerated variant is actually appended
	for round := 0; round < 4; round++ {
		errs := consul.VerifTxnPreCheck(c.Shell, txn.txnOps(c))
		if len(errs) == 0 {
			break
		}
		bad := map[int]bool{}
		for _, e := range errs {
			bad[e.OpIndex] = true
		}
		var keep []Step
		for i, o := range txn.Ops {
			if !bad[i] {
				keep = append(keep, o)
			}
		}
		txn.Ops = keep
		r.Hit("probe.txn-op-dropped-by-precheck")
	}
	keys, sessions := planNames(p)
	keys = append(keys, "verif/guard")
	battery := Battery(DefaultUniverse(), keys, sessions, BatteryExtra{Names: []string{"web-sidecar-proxy", "igw", "tgw", "mgw"}})
	mk := func(class, inv, culprit, detail string) *simkit.Violation {
		return &simkit.Violation{Property: "C05", Class: class, Invariant: inv, Step: len(p.Steps) - 1, Culprit: culprit, Detail: detail}
	}

	// attempt applies one variant and checks the all-or-nothing contract
	attempt := func(variant Step, label string, mustFail bool) *simkit.Violation {
		before := captureSide(c, keys)
		// watch sets of every query of the battery, collected on the pre-state
		var wss []memdb.WatchSet
		for _, q := range battery {
			ws := memdb.NewWatchSet()
			q.Run(c.L.State(), ws)
			wss = append(wss, ws)
		}
		nlog := len(c.Log)
		out := c.Do(variant)
		if c.Fatal != nil {
			return mk("panic", "apply-does-not-panic", label, c.Fatal.Error())
		}
		if out.Rejected {
			r.Hit("probe.txn-rejected-by-endpoint-precheck")
			if mustFail {
				return mk("harness-panic", "failing-op-passes-precheck", label, fmt.Sprintf("endpoint pre-check refused the variant: %v", out.Resp))
			}
			return nil
		}
		if len(c.Log) != nlog+1 {
			return nil // not appended (propose fault): nothing to check
		}
		idx := c.Log[nlog].Index
		resp, ok := out.Resp.(structs.TxnResponse)
		if !ok {
			return mk("txn-partial", "response-is-txn-response", label, fmt.Sprintf("unexpected response %T", out.Resp))
		}
		after := captureSide(c, keys)
		failed := len(resp.Errors) > 0
		if mustFail && !failed {
			return mk("txn-partial", "failing-op-fails-the-transaction", label, fmt.Sprintf("the variant contains an op that cannot succeed (%s) yet the transaction reported no error", label))
		}
		if failed {
			r.Hit("probe.txn-rolled-back")
			if len(resp.Results) != 0 {
				return mk("txn-partial", "failed-txn-returns-no-results", label, fmt.Sprintf("errors=%v but %d results returned", resp.Errors, len(resp.Results)))
			}
			if d := after.dump.Diff(before.dump, nil); d != "" {
				return mk("txn-partial", "failed-txn-changes-nothing", label+":"+strings.Join(after.dump.DiffTables(before.dump), ","),
					fmt.Sprintf("transaction failed with %v but state changed (A=after, B=before):\n%s", resp.Errors, d))
			}
			if after.batches != before.batches {
				return mk("txn-leak:events", "failed-txn-publishes-nothing", label, fmt.Sprintf("transaction failed but %d event batch(es) were handed to the publisher", after.batches-before.batches))
			}
			if after.gcPend != before.gcPend {
				return mk("txn-leak:tombstone-gc", "failed-txn-leaves-no-gc-hint", label, "transaction failed but the tombstone GC received a hint")
			}
			for qi, ws := range wss {
				for ch := range ws {
					select {
					case <-ch:
						return mk("txn-spurious-wake", "failed-txn-wakes-no-watcher", label, fmt.Sprintf("transaction failed but a watch channel of %s fired", battery[qi].Name))
					default:
					}
				}
			}
			for _, k := range simkit.SortedKeys(after.delay) {
				if !after.delay[k].Equal(before.delay[k]) {
					return mk("txn-leak:lock-delay", "failed-txn-arms-no-lock-delay", label, fmt.Sprintf("transaction failed but a lock-delay for key %q was armed (%v -> %v)", k, before.delay[k], after.delay[k]))
				}
			}
			return nil
		}
		r.Hit("probe.txn-committed")
		// success: one index for everything that changed
		for _, t := range after.dump.Tables() {
			was := map[string]bool{}
			for _, row := range before.dump[t] {
				was[row] = true
			}
			for _, row := range after.dump[t] {
				if was[row] {
					continue
				}
				if m := modifyIdxRx.FindStringSubmatch(row); m != nil && m[1] != fmt.Sprint(idx) {
					// session-bound checks are updated with their indexes preserved on purpose
					if t == "checks" && strings.Contains(row, `Type:"session"`) {
						continue
					}
					// mesh-topology rows carry a reference set (which registrations contribute the pair);
					// dropping one of several references rewrites the row without changing the relation
					// any query returns, and deliberately without a new index
					if t == "mesh-topology" {
						continue
					}
					return mk("txn-partial", "changed-rows-carry-the-txn-index", label+":"+t, fmt.Sprintf("transaction committed at index %d but changed row has ModifyIndex %s: %s", idx, m[1], simkit.Trunc(row, 500)))
				}
			}
		}
		if after.batches-before.batches > 1 {
			return mk("txn-leak:events", "committed-txn-publishes-one-batch", label, fmt.Sprintf("%d event batches for one transaction", after.batches-before.batches))
		}
		// read-your-writes for KV reads that follow KV writes of the same key in this transaction
		if v := checkResultsCorrespond(variant, resp); v != "" {
			return mk("txn-results", "results-correspond-to-operations-in-order", label, v)
		}
		if v := checkReadYourWrites(variant, resp, idx); v != "" {
			return mk("txn-partial", "ops-see-earlier-ops", label, v)
		}
		return nil
	}

	// 1. a failing op at every position, several kinds
	fops := failingOps()
	for pos := 0; pos <= len(txn.Ops); pos++ {
		f := fops[(pos+len(prefix))%len(fops)]
		if f.Op == "kv.delete-cas" {
			// a stale delete of a key that an earlier op of the transaction removed succeeds (nothing to delete)
			for _, o := range txn.Ops[:pos] {
				if (o.Op == "kv.delete-tree" && strings.HasPrefix(f.Key, o.Key)) || ((o.Op == "kv.delete" || o.Op == "kv.delete-cas") && o.Key == f.Key) {
					f = fops[0]
				}
			}
		}
		variant := Step{Op: "txn"}
		variant.Ops = append(variant.Ops, txn.Ops[:pos]...)
		variant.Ops = append(variant.Ops, f)
		variant.Ops = append(variant.Ops, txn.Ops[pos:]...)
		r.Steps++
		r.Hit("probe.failing-position-enumerated")
		if v := attempt(variant, fmt.Sprintf("fail@%d:%s", pos, f.Op), true); v != nil {
			return v
		}
	}
	// 1b. isolation: a compare-and-set sees the writes of earlier ops of the same transaction
	for pi, probe := range isolationProbes() {
		if (pi+len(prefix))%2 == 0 {
			continue // half of the probes per run keep the cost down; the seed decides which half
		}
		variant := Step{Op: "txn"}
		variant.Ops = append(variant.Ops, txn.Ops...)
		variant.Ops = append(variant.Ops, probe...)
		r.Steps++
		r.Hit("probe.isolation-probe")
		if v := attempt(variant, fmt.Sprintf("isolation:%s+%s", probe[0].Op, probe[1].Op), true); v != nil {
			return v
		}
	}
	// 2. the read-only path never writes
	{
		before := captureSide(c, keys)
		ops := txn.txnOps(c)
		c.L.State().TxnRO(ops)
		after := captureSide(c, keys)
		if d := after.dump.Diff(before.dump, nil); d != "" {
			return mk("txn-ro-wrote", "read-only-txn-changes-nothing", "txn-ro:"+strings.Join(after.dump.DiffTables(before.dump), ","), d)
		}
		if after.batches != before.batches {
			return mk("txn-ro-wrote", "read-only-txn-publishes-nothing", "txn-ro", "events published by a read-only transaction")
		}
	}
	// 3. the transaction as generated
	r.Steps++
	if v := attempt(txn, "as-generated", false); v != nil {
		return v
	}
	r.Nontrivial = true
	r.Sig(culpritOf(txn))
	for _, s := range prefix {
		r.Sig(s.Op)
	}
	return nil
}

// checkResultsCorrespond: "returns their results" - every result belongs to one operation, in
// operation order; only a tree read may own several results, and no operation owns a result twice.
func checkResultsCorrespond(txn Step, resp structs.TxnResponse) string {
	j := 0
	for ri, res := range resp.Results {
		matched := false
		for j < len(txn.Ops) && !matched {
			o := txn.Ops[j]
			switch {
			case res.KV != nil && IsKV(o.Op):
				matched = o.Key == res.KV.Key || (o.Op == "kv.get-tree" && strings.HasPrefix(res.KV.Key, o.Key))
			case res.Node != nil && strings.HasPrefix(o.Op, "node."):
				matched = strings.EqualFold(o.Node, res.Node.Node) || (o.NodeID != "" && o.NodeID == string(res.Node.ID))
			case res.Service != nil && strings.HasPrefix(o.Op, "service."):
				id := o.SvcID
				if id == "" {
					id = o.Svc
				}
				matched = id == res.Service.ID
			case res.Check != nil && strings.HasPrefix(o.Op, "check.") && len(o.Checks) > 0:
				matched = o.Checks[0].ID == string(res.Check.CheckID)
			}
			if !matched || o.Op != "kv.get-tree" {
				j++
			}
		}
		if !matched {
			return fmt.Sprintf("result %d of %d (%s) does not belong to any remaining operation of the transaction, in order: the result list is not the list of the operations' results",
				ri, len(resp.Results), simkit.Trunc(simkit.Canon(res, "RaftIndex"), 200))
		}
	}
	return ""
}

// checkReadYourWrites: a kv.get / kv.get-or-empty that follows a kv.set of the same key (with no
// op in between that could touch the key) must return the value just written.
func checkReadYourWrites(txn Step, resp structs.TxnResponse, idx uint64) string {
	// results are positional only for ops that produce exactly one result; rebuild the mapping
	ri := 0
	last := map[string]*Step{}
	for i := range txn.Ops {
		o := &txn.Ops[i]
		produces := 0
		switch o.Op {
		case "kv.set", "kv.cas", "kv.lock", "kv.unlock", "kv.get", "kv.get-or-empty", "kv.check-index", "kv.check-session":
			produces = 1
		case "kv.delete", "kv.delete-cas", "kv.delete-tree", "kv.check-not-exists":
			produces = 0
		default:
			return "" // non-KV op or variable-length result (get-tree): stop, positions are unknown from here
		}
		switch o.Op {
		case "kv.set":
			last[o.Key] = o
		case "kv.get", "kv.get-or-empty":
			if w := last[o.Key]; w != nil && ri < len(resp.Results) {
				res := resp.Results[ri]
				if res.KV == nil {
					return fmt.Sprintf("op %d (%s) returned no KV result", i, o.Short())
				}
				if string(res.KV.Value) != w.Val || res.KV.Flags != w.Flags {
					return fmt.Sprintf("op %d (%s) returned value %q flags %d, but an earlier op of the same transaction set %q flags %d", i, o.Short(), res.KV.Value, res.KV.Flags, w.Val, w.Flags)
				}
				if res.KV.ModifyIndex != idx && res.KV.ModifyIndex == 0 {
					return fmt.Sprintf("op %d (%s) returned modify index 0", i, o.Short())
				}
			}
		case "kv.delete", "kv.delete-cas", "kv.cas", "kv.lock", "kv.unlock":
			delete(last, o.Key)
		case "kv.delete-tree":
			last = map[string]*Step{}
		}
		ri += produces
	}
	return ""
}
