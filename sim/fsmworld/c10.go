//go:build verif

package fsmworld

import (
	"fmt"
	"math/rand/v2"
	"strings"
	"testing"
	"time"

	"github.com/hashicorp/consul/agent/structs"
	"github.com/hashicorp/consul/internal/verifsim/simkit"
)

// C10: conditional writes are honest - applied iff matched, reported iff applied.
//
// Generated histories are dense in conditional commands of every type (KV cas /
// delete-cas, transaction node/service/check cas and delete-cas, config entry
// upsert-cas / delete-cas, CA config CAS, CA root set CAS, the composite
// roots+config operation, autopilot CAS, feature gates, ACL token CAS) with
// supplied indexes drawn from {zero, current, stale, future} against entities
// that are absent, present or deleted-and-recreated. For each conditional
// command "matched" is decided by a reference rule from the state BEFORE,
// "applied" is whether any table changed, "reported" is the command's result.
type C10 struct{}

func (C10) Decode(raw []byte) (simkit.Plan, error) { return DecodePlan(raw) }

func (g *Gen) conditional() Step {
	r := g.R
	idx := g.pick([]string{"zero", "cur", "cur", "stale", "future"})
	switch simkit.Weighted(r, []int{16, 10, 18, 16, 8, 10, 12, 5, 6, 5}) {
	case 0:
		return Step{Op: "kv.cas", Key: g.pick(g.U.Keys), Val: g.pick([]string{"v1", "v2"}), Idx: idx}
	case 1:
		return Step{Op: "kv.delete-cas", Key: g.pick(g.U.Keys), Idx: idx}
	case 2: // single-op transactions with a catalog CAS verb
		var o Step
		switch r.IntN(3) {
		case 0:
			ni := g.nodeIdx()
			o = Step{Op: "node." + g.pick([]string{"cas", "delete-cas"}), Node: g.U.Nodes[ni], Addr: fmt.Sprintf("10.0.2.%d", 1+r.IntN(3)), Idx: idx}
		case 1:
			o = Step{Node: g.pick(g.U.Nodes), Svc: g.pick(g.U.Services), Port: 7000 + r.IntN(3)}
			o.Op = "service." + g.pick([]string{"cas", "delete-cas"})
			o.Idx = idx
		default:
			o = Step{Op: "check." + g.pick([]string{"cas", "delete-cas"}), Node: g.pick(g.U.Nodes), Checks: []Check{{ID: g.pick(g.U.Checks), Status: g.status()}}, Idx: idx}
		}
		if simkit.Chance(r, 30) {
			// the same entity rewritten by an earlier operation of the transaction: the condition is
			// evaluated on what that operation left behind (its index is the transaction's own)
			w := o
			w.Idx = ""
			switch {
			case strings.HasPrefix(o.Op, "node."):
				w.Op, w.Addr = "node.set", fmt.Sprintf("10.7.%d.%d", r.IntN(250), 1+r.IntN(250))
			case strings.HasPrefix(o.Op, "service."):
				w.Op, w.Port = "service.set", 10000+r.IntN(50000)
			default:
				w.Op = "check.set"
				w.Checks = []Check{{ID: o.Checks[0].ID, Status: g.status(), Output: fmt.Sprint("out", r.Uint32())}}
			}
			return Step{Op: "txn", Ops: []Step{w, o}}
		}
		return Step{Op: "txn", Ops: []Step{o}}
	case 3:
		text := mustJSON(M{"Kind": "service-defaults", "Name": g.pick(g.U.Services), "Protocol": g.pick([]string{"tcp", "http"})})
		if simkit.Chance(r, 40) {
			text = g.ConfigEntryJSON()
		}
		return Step{Op: g.pick([]string{"ce.upsert-cas", "ce.upsert-cas", "ce.delete-cas"}), Text: text, Idx: idx}
	case 4:
		return Step{Op: "ca.set-config", Text: g.pick([]string{"72h", "24h"}), Idx: g.pick([]string{"cur", "stale", "future", "cur"})}
	case 5:
		s := Step{Op: "ca.set-roots", Idx: idx}
		k := 1 + r.IntN(2)
		for i := 0; i < k; i++ {
			s.List = append(s.List, fmt.Sprintf("root%d", 1+r.IntN(4)))
		}
		s.N = int64(r.IntN(k))
		if simkit.Chance(r, 10) {
			s.N = int64(k) // no active root: invalid
		}
		return s
	case 6:
		s := Step{Op: "ca.set-roots-config", Idx: idx, Text: g.pick([]string{"72h", "24h"}), Text2: g.pick([]string{"zero", "cur", "cur", "stale", "future"})}
		k := 1 + r.IntN(2)
		for i := 0; i < k; i++ {
			s.List = append(s.List, fmt.Sprintf("root%d", 1+r.IntN(4)))
		}
		s.N = int64(r.IntN(k))
		return s
	case 7:
		return Step{Op: "autopilot", Flag: true, Idx: idx, N: int64(100 + r.IntN(3)), Flag2: simkit.Chance(r, 50)}
	case 8:
		return Step{Op: "featuregate", Name: g.pick([]string{"feat-a", "feat-b"}), Flag: simkit.Chance(r, 70), Flag2: simkit.Chance(r, 50),
			Idx: g.pick([]string{"zero", "cur", "cur", "stale"}), Text2: g.pick([]string{"zero", "cur", "cur", "stale"}), Text: g.pick([]string{"d1", "d2"})}
	default:
		id := 1 + r.IntN(3)
		if simkit.Chance(r, 35) {
			// two tokens in one conditional batch, each with its own index
			id2 := id%3 + 1
			sym := func() string { return g.pick([]string{"zero", "cur", "cur", "stale", "future"}) }
			// (Name "deadlink": the member links a policy that does not exist - refused if it is written,
			// of no consequence if its index does not match)
			link := func() string { return g.pick([]string{"", "", "", "deadlink"}) }
			return Step{Op: "acl.token.batch-cas", Ops: []Step{
				{ID: TokenUUID(id), Text: SecretUUID(id), Idx: sym(), Text2: g.pick([]string{"a", "b", "c"}), Name: link()},
				{ID: TokenUUID(id2), Text: SecretUUID(id2), Idx: sym(), Text2: g.pick([]string{"a", "b", "c"}), Name: link()}}}
		}
		return Step{Op: "acl.token.set", ID: TokenUUID(id), Text: SecretUUID(id), Idx: idx, Text2: g.pick([]string{"a", "b"})}
	}
}

func (C10) Generate(rng *rand.Rand, tier string, runIdx uint64) simkit.Plan {
	u := DefaultUniverse()
	u.Keys = []string{"a", "a/b", "ab", "b"}
	w := Weights{Register: 14, Deregister: 6, KV: 10, Session: 2, Advance: 1, Snapshot: 1, Restart: 1, Ext: 12}
	g := NewGen(rng, u, w)
	n := 10 + rng.IntN(60)
	p := &Plan{Cfg: Cfg{GCTTL: "15m", GCGran: "30s"}}
	p.Steps = append(p.Steps, Step{Op: "register", Node: "n1", NodeID: NodeUUID(1), Addr: "10.0.0.1"})
	for len(p.Steps) < n {
		if simkit.Chance(rng, 55) {
			p.Steps = append(p.Steps, g.conditional())
		} else {
			p.Steps = append(p.Steps, g.Next())
		}
	}
	return p
}

func (w C10) Execute(t *testing.T, pl simkit.Plan, r *simkit.Run) (v *simkit.Violation) {
	if err := simkit.Bubble(t, func() { v = w.execute(pl.(*Plan), r) }); err != nil {
		return &simkit.Violation{Class: "harness-panic", Invariant: "no-escaped-panic", Detail: err.Error()}
	}
	return v
}

type casVerdict struct {
	conditional bool
	matched     bool
	// absentDeleteOK: delete-cas of an absent key reports success without applying anything
	absentDeleteOK bool
	// invalid: the request is rejected for reasons other than the index (no verdict expected)
	invalid bool
	what    string
}

func setCAS(present bool, cur, supplied uint64) bool {
	return (supplied == 0 && !present) || (supplied != 0 && present && supplied == cur)
}

// verdict decides "matched" from the state before the command.
func (c *Cluster) verdict(s Step) casVerdict {
	st := c.L.State()
	switch s.Op {
	case "kv.cas":
		cur := c.KeyIndex(s.Key)
		return casVerdict{conditional: true, matched: setCAS(cur != 0, cur, resolveIdx(s.Idx, cur)), what: fmt.Sprintf("key %q cur=%d supplied=%d", s.Key, cur, resolveIdx(s.Idx, cur))}
	case "kv.delete-cas":
		cur := c.KeyIndex(s.Key)
		sup := resolveIdx(s.Idx, cur)
		if cur == 0 {
			return casVerdict{conditional: true, matched: false, absentDeleteOK: true, what: fmt.Sprintf("key %q absent supplied=%d", s.Key, sup)}
		}
		return casVerdict{conditional: true, matched: sup == cur, what: fmt.Sprintf("key %q cur=%d supplied=%d", s.Key, cur, sup)}
	case "txn":
		if len(s.Ops) == 2 && strings.HasSuffix(s.Ops[0].Op, ".set") && strings.HasSuffix(s.Ops[1].Op, "cas") &&
			strings.SplitN(s.Ops[0].Op, ".", 2)[0] == strings.SplitN(s.Ops[1].Op, ".", 2)[0] {
			// the first operation gives the entity the transaction's own index (or fails the transaction):
			// only that index matches
			o := s.Ops[1]
			var cur uint64
			switch {
			case strings.HasPrefix(o.Op, "node."):
				cur = c.NodeIndex(o.Node, o.Peer)
			case strings.HasPrefix(o.Op, "service."):
				id := o.SvcID
				if id == "" {
					id = o.Svc
				}
				cur = c.ServiceIndex(o.Node, id, o.Peer)
			case len(o.Checks) > 0:
				cur = c.CheckIndex(o.Node, o.Checks[0].ID, o.Peer)
			}
			sup, own := resolveIdx(o.Idx, cur), c.next+uint64(s.Gap)
			what := fmt.Sprintf("%s after %s in one transaction: supplied=%d, the transaction's own index is %d", o.Short(), s.Ops[0].Short(), sup, own)
			if sup == own {
				return casVerdict{conditional: true, matched: true, invalid: true, what: what}
			}
			return casVerdict{conditional: true, matched: false, what: what}
		}
		if len(s.Ops) != 1 {
			return casVerdict{}
		}
		o := s.Ops[0]
		var cur uint64
		switch {
		case strings.HasPrefix(o.Op, "node."):
			cur = c.NodeIndex(o.Node, o.Peer)
		case strings.HasPrefix(o.Op, "service."):
			id := o.SvcID
			if id == "" {
				id = o.Svc
			}
			cur = c.ServiceIndex(o.Node, id, o.Peer)
		case strings.HasPrefix(o.Op, "check."):
			if len(o.Checks) == 0 {
				return casVerdict{}
			}
			cur = c.CheckIndex(o.Node, o.Checks[0].ID, o.Peer)
		default:
			return casVerdict{}
		}
		sup := resolveIdx(o.Idx, cur)
		what := fmt.Sprintf("%s cur=%d supplied=%d", o.Short(), cur, sup)
		switch {
		case strings.HasSuffix(o.Op, ".delete-cas"):
			return casVerdict{conditional: true, matched: cur != 0 && sup == cur, what: what}
		case strings.HasSuffix(o.Op, ".cas"):
			v := casVerdict{conditional: true, matched: setCAS(cur != 0, cur, sup), what: what}
			// a matched set can still be refused for a missing parent (service/check without node/service)
			if v.matched && !strings.HasPrefix(o.Op, "node.") {
				v.invalid = true
			}
			return v
		}
		return casVerdict{}
	case "ce.upsert-cas", "ce.delete-cas":
		entry, err := DecodeConfigEntryJSON(s.Text)
		if err != nil || entry.Normalize() != nil {
			return casVerdict{}
		}
		var cur uint64
		if _, ex, _ := st.ConfigEntry(nil, entry.GetKind(), entry.GetName(), entry.GetEnterpriseMeta()); ex != nil {
			cur = ex.GetRaftIndex().ModifyIndex
		}
		sup := resolveIdx(s.Idx, cur)
		what := fmt.Sprintf("%s/%s cur=%d supplied=%d", entry.GetKind(), entry.GetName(), cur, sup)
		if s.Op == "ce.delete-cas" {
			// a matched delete may still be refused by graph validation
			return casVerdict{conditional: true, matched: cur != 0 && sup == cur, invalid: cur != 0 && sup == cur, what: what}
		}
		m := setCAS(cur != 0, cur, sup)
		return casVerdict{conditional: true, matched: m, invalid: m, what: what} // matched upserts may fail graph validation
	case "ca.set-config":
		var cur uint64
		_, cfg, _ := st.CAConfig(nil)
		if cfg != nil {
			cur = cfg.ModifyIndex
		}
		sup := resolveIdx(s.Idx, cur)
		if sup == 0 {
			return casVerdict{} // unconditional set
		}
		return casVerdict{conditional: true, matched: cfg != nil && sup == cur, what: fmt.Sprintf("ca-config cur=%d supplied=%d", cur, sup)}
	case "ca.set-roots", "ca.set-roots-config":
		ridx, _, _ := st.CARoots(nil)
		sup := resolveIdx(s.Idx, ridx)
		active := 0
		for i := range s.List {
			if int64(i) == s.N || (s.Flag && i == 0) {
				active++
			}
		}
		seen := map[string]bool{}
		for _, id := range s.List {
			if seen[id] {
				active = -1 // duplicate root ids: not a well-formed root set
			}
			seen[id] = true
		}
		v := casVerdict{conditional: true, matched: sup == ridx, invalid: active != 1, what: fmt.Sprintf("ca-roots table index=%d supplied=%d", ridx, sup)}
		if s.Op == "ca.set-roots-config" {
			var cur uint64
			_, cfg, _ := st.CAConfig(nil)
			if cfg != nil {
				cur = cfg.ModifyIndex
			}
			csup := resolveIdx(s.Text2, cur)
			cm := (cfg != nil && csup == cur) || (cfg == nil && csup == 0)
			v.what += fmt.Sprintf("; ca-config cur=%d supplied=%d", cur, csup)
			v.matched = v.matched && cm
		}
		return v
	case "autopilot":
		if !s.Flag {
			return casVerdict{}
		}
		_, cfg, _ := st.AutopilotConfig()
		var cur uint64
		if cfg != nil {
			cur = cfg.ModifyIndex
		}
		sup := resolveIdx(s.Idx, cur)
		return casVerdict{conditional: true, matched: cfg != nil && sup == cur, what: fmt.Sprintf("autopilot cur=%d supplied=%d", cur, sup)}
	case "featuregate":
		_, pol, stt, _ := st.FeatureGatePolicyAndStatus(nil)
		var pi, si uint64
		if pol != nil {
			pi = pol.ModifyIndex
		}
		if stt != nil {
			si = stt.ModifyIndex
		}
		ps, ss := resolveIdx(s.Idx, pi), resolveIdx(s.Text2, si)
		v := casVerdict{conditional: true, matched: ps == pi && ss == si, what: fmt.Sprintf("feature-gate policy cur=%d supplied=%d status cur=%d supplied=%d", pi, ps, si, ss)}
		if s.NoChecks || (!s.Flag && pol == nil) {
			v.invalid = true // request without status, or status without any policy
		}
		return v
	case "acl.token.set":
		if s.Idx == "" {
			return casVerdict{}
		}
		var cur uint64
		if _, ex, _ := st.ACLTokenGetByAccessor(nil, s.ID, nil); ex != nil {
			cur = ex.ModifyIndex
		}
		sup := resolveIdx(s.Idx, cur)
		return casVerdict{conditional: true, matched: setCAS(cur != 0, cur, sup), invalid: true, what: fmt.Sprintf("token cur=%d supplied=%d", cur, sup)}
	}
	return casVerdict{}
}

func reportedTrue(s Step, out Outcome) (reported bool, isErr bool) {
	if out.Err != nil {
		return false, true
	}
	switch v := out.Resp.(type) {
	case bool:
		return v, false
	case structs.TxnResponse:
		return len(v.Errors) == 0, false
	case nil:
		return true, false // commands that answer nil on success (token batch set)
	}
	return true, false
}

func (C10) execute(p *Plan, r *simkit.Run) *simkit.Violation {
	c := NewCluster(r, parseDur(p.Cfg.GCTTL, 15*time.Minute), parseDur(p.Cfg.GCGran, 30*time.Second))
	defer c.Close()
	mk := func(i int, s Step, class, inv, detail string) *simkit.Violation {
		op := s.Op
		if s.Op == "txn" && len(s.Ops) == 1 {
			op = "txn:" + s.Ops[0].Op
		}
		return &simkit.Violation{Property: "C10", Class: class + ":" + op, Invariant: inv, Step: i, Culprit: op, Detail: detail}
	}
	for i, s := range p.Steps {
		r.Steps++
		if s.Op == "acl.token.batch-cas" {
			if vi := c.judgeTokenBatch(i, s, r, mk); vi != nil {
				return vi
			}
			continue
		}
		v := c.verdict(s)
		if !v.conditional || s.Fault != "" {
			s.Fault = ""
			c.Do(s)
			if c.Fatal != nil {
				return mk(i, s, "panic", "apply-does-not-panic", c.Fatal.Error())
			}
			continue
		}
		before := c.L.Dump()
		nlog := len(c.Log)
		out := c.Do(s)
		if c.Fatal != nil {
			return mk(i, s, "panic", "apply-does-not-panic", c.Fatal.Error())
		}
		if out.Rejected || len(c.Log) == nlog {
			continue // refused by the endpoint before the log: not a conditional write at all
		}
		after := c.L.Dump()
		applied := after.Diff(before, nil) != ""
		reported, isErr := reportedTrue(s, out)
		r.Sig(fmt.Sprintf("%s:%v:%v", s.Op, v.matched, reported))
		r.Hit(fmt.Sprintf("probe.cas.%s.matched=%v", s.Op, v.matched))
		desc := fmt.Sprintf("%s [%s] matched=%v reported=%v(err=%v: %v) applied=%v", s.Short(), v.what, v.matched, reported, isErr, out.Err, applied)
		if !v.matched {
			if applied {
				return mk(i, s, "cas-dishonest", "unmatched-write-changes-nothing", desc+"\n"+after.Diff(before, nil))
			}
			if v.absentDeleteOK {
				continue
			}
			if reported && s.Op != "acl.token.set" {
				return mk(i, s, "cas-dishonest", "unmatched-write-reports-failure", desc)
			}
			continue
		}
		// matched
		if v.invalid {
			// may legitimately fail for another reason; but then nothing may have changed
			if !reported && applied {
				return mk(i, s, "cas-partial", "failed-write-changes-nothing", desc+"\n"+after.Diff(before, nil))
			}
			continue
		}
		if !reported {
			if applied {
				return mk(i, s, "cas-partial", "failed-write-changes-nothing", desc+"\n"+after.Diff(before, nil))
			}
			return mk(i, s, "cas-dishonest", "matched-write-reports-success", desc)
		}
	}
	r.Nontrivial = len(c.Log) >= 3
	return nil
}

// judgeTokenBatch: a conditional batch of tokens writes exactly the tokens whose own index matches.
func (c *Cluster) judgeTokenBatch(i int, s Step, r *simkit.Run, mk func(int, Step, string, string, string) *simkit.Violation) *simkit.Violation {
	st := c.L.State()
	type exp struct {
		id      string
		matched bool
		cur     uint64
		desc    string
	}
	var exps []exp
	outside := false
	for _, o := range s.Ops {
		var cur uint64
		if _, ex, _ := st.ACLTokenGetByAccessor(nil, o.ID, nil); ex != nil {
			cur = ex.ModifyIndex
		}
		matched := setCAS(cur != 0, cur, resolveIdx(o.Idx, cur))
		// secrets are unique and never change: the ACL endpoints (and a primary datacenter, for replication) see to
		// that before anything reaches the log. A batch that brings a secret another accessor holds, or another secret
		// for an existing accessor, is outside that precondition (the table is keyed by secret: such a member replaces
		// the other accessor's row, and with it the "current index" of a later member) - nothing is claimed about it
		if _, ex, _ := st.ACLTokenGetByAccessor(nil, o.ID, nil); ex != nil && ex.SecretID != o.Text {
			outside = true
		}
		if _, other, _ := st.ACLTokenGetBySecret(nil, o.Text, nil); other != nil && other.AccessorID != o.ID {
			outside = true
		}
		exps = append(exps, exp{id: o.ID, cur: cur, matched: matched, desc: o.Text2})
	}
	nlog := len(c.Log)
	out := c.Do(s)
	if c.Fatal != nil {
		return mk(i, s, "panic", "apply-does-not-panic", c.Fatal.Error())
	}
	if len(c.Log) == nlog {
		return nil
	}
	if outside {
		r.Hit("probe.cas.acl.token.batch.outside-precondition")
		return nil
	}
	idx := c.Log[len(c.Log)-1].Index
	if err, refused := out.Resp.(error); refused {
		// a member whose index does not match is not written, so nothing about it can refuse the batch
		if strings.Contains(err.Error(), PolicyUUID(99)) {
			blame := false
			for k, o := range s.Ops {
				if o.Name == "deadlink" && exps[k].matched {
					blame = true
				}
			}
			if !blame {
				return mk(i, s, "cas-dishonest", "matched-write-is-applied", fmt.Sprintf("the batch was refused (%v) although the only member with that link has an index that does not match; the members that match were not written", err))
			}
			r.Hit("probe.cas.acl.token.batch.refused-for-matched-dead-link")
		}
		// the batch as a whole was refused (a token in it is invalid): then nothing of it is written
		for k := range exps {
			exps[k].matched = false
		}
	}
	for k, e := range exps {
		_, now, _ := c.L.State().ACLTokenGetByAccessor(nil, e.id, nil)
		written := now != nil && now.ModifyIndex == idx
		r.Hit(fmt.Sprintf("probe.cas.acl.token.batch.matched=%v", e.matched))
		desc := fmt.Sprintf("token %d of the batch (%s): index was %d, matched=%v, written=%v", k, e.id, e.cur, e.matched, written)
		if e.matched && !written {
			return mk(i, s, "cas-dishonest", "matched-write-is-applied", desc)
		}
		if !e.matched && written {
			return mk(i, s, "cas-dishonest", "unmatched-write-changes-nothing", desc)
		}
		if !e.matched && ((now == nil) != (e.cur == 0) || (now != nil && now.ModifyIndex != e.cur)) {
			return mk(i, s, "cas-dishonest", "unmatched-write-changes-nothing", desc+" (the token changed)")
		}
	}
	return nil
}
