//go:build verif

package fsmworld

import (
	"fmt"
	"math/rand/v2"
	"strings"

	"github.com/hashicorp/consul/internal/verifsim/simkit"
	"github.com/hashicorp/consul/types"
)

func typesCheckID(s string) types.CheckID { return types.CheckID(s) }

// Universe is the small world plans draw names from.
type Universe struct {
	Nodes    []string
	Services []string
	Keys     []string
	Peers    []string
	Checks   []string
}

var DefaultKeys = []string{"", "a", "a/", "a/b", "ab", "a/b/c", "A", "é/x", "a\x01", "b", "a/b/", "zz/long/key/with/many/segments/0123456789"}

func DefaultUniverse() Universe {
	return Universe{
		Nodes:    []string{"n1", "n2", "n3"},
		Services: []string{"web", "api", "db"},
		Keys:     DefaultKeys,
		Peers:    []string{"", "", "", "peerA"},
		Checks:   []string{"c1", "c2", "serfHealth"},
	}
}

// Gen carries generator state (fresh-id counters) for one plan.
type Gen struct {
	R        *rand.Rand
	U        Universe
	sessN    int
	Sessions []string // ids created so far (may have been destroyed since)
	queryN   int
	W        Weights
}

// Weights of step families; zero disables (swarm variation).
type Weights struct {
	Register, Deregister, KV, Session, Txn, Reap, Advance, Snapshot, Restart, Fault, Ext int
	KVLockBias                                                                           int  // extra weight of lock/unlock among KV verbs
	CaseVariants                                                                         bool // service names in varying case (C06)
	DestCaseVariants                                                                     bool // proxy destination names in varying case (C11)
	Peer                                                                                 bool
	Kinds                                                                                bool
	InPlaceKind                                                                          bool
	NoGatewayWildcard                                                                    bool
}

func NewGen(r *rand.Rand, u Universe, w Weights) *Gen { return &Gen{R: r, U: u, W: w} }

func (g *Gen) pick(xs []string) string { return xs[g.R.IntN(len(xs))] }

func (g *Gen) peer() string {
	if !g.W.Peer {
		return ""
	}
	return g.pick(g.U.Peers)
}

func (g *Gen) nodeIdx() int { return g.R.IntN(len(g.U.Nodes)) }

func (g *Gen) status() string {
	return g.pick([]string{"passing", "passing", "warning", "critical", "critical"})
}

func (g *Gen) symIdx() string {
	return g.pick([]string{"zero", "cur", "cur", "cur", "stale", "future"})
}

// Register: node alone, node+service, node+service+checks, checks only.
func (g *Gen) Register() Step {
	ni := g.nodeIdx()
	s := Step{Op: "register", Node: g.U.Nodes[ni], Addr: fmt.Sprintf("10.0.0.%d", ni+1), Peer: g.peer()}
	if simkit.Chance(g.R, 70) {
		s.NodeID = NodeUUID(ni + 1)
		if simkit.Chance(g.R, 8) {
			// rename by ID: same ID, different name
			s.Node = s.Node + "-renamed"
		}
		if simkit.Chance(g.R, 5) {
			s.NodeID = NodeUUID(g.R.IntN(len(g.U.Nodes)) + 1) // id collision attempts
		}
	}
	if simkit.Chance(g.R, 15) {
		s.Addr = fmt.Sprintf("10.0.1.%d", g.R.IntN(4)+1)
	}
	if simkit.Chance(g.R, 15) {
		s.NodeMeta = "rack=" + g.pick([]string{"r1", "r2"})
	}
	if simkit.Chance(g.R, 12) {
		s.Loc = g.pick([]string{"us-east/a", "us-east/b", "eu/c"})
	}
	if simkit.Chance(g.R, 75) {
		g.fillService(&s)
	}
	nchk := simkit.Weighted(g.R, []int{45, 40, 15})
	for i := 0; i < nchk; i++ {
		c := Check{ID: g.pick(g.U.Checks), Status: g.status()}
		if s.Svc != "" && simkit.Chance(g.R, 60) {
			c.SvcID = s.SvcID
			if c.SvcID == "" {
				c.SvcID = s.Svc
			}
			c.ID = c.ID + "-" + c.SvcID
		} else if simkit.Chance(g.R, 10) {
			c.SvcID = g.pick(g.U.Services) // possibly missing service
		}
		if simkit.Chance(g.R, 20) {
			c.Output = g.pick([]string{"ok", "timeout", ""})
		}
		if simkit.Chance(g.R, 15) {
			c.Type = g.pick([]string{"ttl", "http", "session"})
		}
		s.Checks = append(s.Checks, c)
	}
	if simkit.Chance(g.R, 8) {
		s.SkipNode = true
	}
	return s
}

func (g *Gen) fillService(s *Step) {
	s.Svc = g.pick(g.U.Services)
	if simkit.Chance(g.R, 40) {
		s.SvcID = s.Svc + g.pick([]string{"1", "2"})
	}
	if g.W.CaseVariants && simkit.Chance(g.R, 12) {
		// the catalog matches service names case-insensitively: "Web" and "web" are one service to a reader
		s.Svc = strings.ToUpper(s.Svc[:1]) + s.Svc[1:]
	}
	s.Port = 8000 + g.R.IntN(3)
	if simkit.Chance(g.R, 8) {
		s.SvcLoc = g.pick([]string{"us-east/a", "eu/c"})
	}
	if simkit.Chance(g.R, 30) {
		s.Tags = []string{g.pick([]string{"v1", "v2", "primary"})}
	}
	if g.W.Kinds && s.Peer != "" {
		// what a peer exports arrives as typical services and mesh gateways only; sidecar proxies with
		// upstreams are never imported (the mesh-topology code is explicitly not peering aware)
		if simkit.Chance(g.R, 20) {
			s.Kind = "mesh-gateway"
			s.Svc = "mgw"
			if s.SvcID != "" {
				s.SvcID = s.Svc + g.pick([]string{"1", "2"})
			}
		}
		return
	}
	if g.W.Kinds {
		switch simkit.Weighted(g.R, []int{50, 20, 10, 5, 5, 5, 5}) {
		case 1:
			s.Kind = "connect-proxy"
			s.Dest = g.pick(g.U.Services)
			s.Svc = s.Dest + "-sidecar-proxy"
			if g.W.DestCaseVariants && simkit.Chance(g.R, 20) {
				// the connect index of the catalog matches destination names case-insensitively
				s.Dest = strings.ToUpper(s.Dest[:1]) + s.Dest[1:]
			}
			if s.SvcID != "" {
				s.SvcID = s.Svc + g.pick([]string{"1", "2"})
			}
			n := g.R.IntN(3)
			for i := 0; i < n; i++ {
				u := g.pick(g.U.Services)
				if g.W.Peer && simkit.Chance(g.R, 20) {
					u += "@peerA"
				}
				s.Upstreams = append(s.Upstreams, u)
			}
		case 2:
			s.Kind = "connect-native"
			// distinct instance ids: re-registering an existing instance id with another kind in
			// place is exercised only where asked for (Weights.InPlaceKind), see known finding
			// C07-stale-derived-rows-after-in-place-kind-change
			if !g.W.InPlaceKind {
				s.SvcID = s.Svc + "-n" + g.pick([]string{"1", "2"})
			}
		case 3:
			s.Kind = "mesh-gateway"
			s.Svc = "mgw"
		case 4:
			s.Kind = "terminating-gateway"
			s.Svc = "tgw"
		case 5:
			s.Kind = "ingress-gateway"
			s.Svc = "igw"
		case 6:
			s.Kind = "api-gateway"
			s.Svc = "agw"
		}
		if s.Kind != "" && s.Kind != "connect-proxy" && s.Kind != "connect-native" && s.SvcID != "" {
			s.SvcID = s.Svc + g.pick([]string{"1", "2"})
			if g.W.InPlaceKind && simkit.Chance(g.R, 50) {
				// one instance id shared by all gateway kinds: an in-place change between
				// two non-typical kinds (and service names)
				s.SvcID = "gw" + g.pick([]string{"1", "2"})
			}
		}
	}
}

func (g *Gen) Deregister() Step {
	s := Step{Op: "deregister", Node: g.pick(g.U.Nodes), Peer: g.peer()}
	switch simkit.Weighted(g.R, []int{25, 50, 25}) {
	case 1:
		svc := g.pick(g.U.Services)
		s.SvcID = svc + g.pick([]string{"", "", "1", "2"})
		if g.W.Kinds && simkit.Chance(g.R, 25) {
			s.SvcID = g.pick([]string{"web-sidecar-proxy", "api-sidecar-proxy", "db-sidecar-proxy", "mgw", "tgw", "igw", "agw"})
		}
	case 2:
		s.CheckID = g.pick(g.U.Checks)
		if simkit.Chance(g.R, 50) {
			s.CheckID += "-" + g.pick(g.U.Services) + g.pick([]string{"", "1", "2"})
		}
	}
	if simkit.Chance(g.R, 5) {
		s.Node += "-renamed"
	}
	return s
}

func (g *Gen) sess() string {
	if len(g.Sessions) == 0 || simkit.Chance(g.R, 7) {
		return SessionUUID(900 + g.R.IntN(3)) // never created
	}
	// bias towards recent sessions
	if simkit.Chance(g.R, 50) {
		return g.Sessions[len(g.Sessions)-1]
	}
	return g.pick(g.Sessions)
}

func (g *Gen) kvVerb(inTxn bool) string {
	verbs := []string{"kv.set", "kv.cas", "kv.delete", "kv.delete-cas", "kv.delete-tree", "kv.lock", "kv.unlock"}
	w := []int{25, 15, 12, 10, 6, 12 + g.W.KVLockBias, 8 + g.W.KVLockBias/2}
	if inTxn {
		verbs = append(verbs, "kv.get", "kv.get-tree", "kv.get-or-empty", "kv.check-index", "kv.check-session", "kv.check-not-exists")
		w = append(w, 6, 4, 4, 6, 5, 5)
	}
	return verbs[simkit.Weighted(g.R, w)]
}

func (g *Gen) KV(inTxn bool) Step {
	s := Step{Op: g.kvVerb(inTxn), Key: g.pick(g.U.Keys)}
	switch s.Op {
	case "kv.set", "kv.cas", "kv.lock", "kv.unlock":
		s.Val = g.pick([]string{"", "v1", "v2", "v3", "a longer value \x00 with a nul"})
		if simkit.Chance(g.R, 30) {
			s.Flags = uint64(g.R.IntN(3))
		}
	}
	switch s.Op {
	case "kv.cas", "kv.delete-cas", "kv.check-index":
		s.Idx = g.symIdx()
	case "kv.lock", "kv.unlock", "kv.check-session":
		s.Sess = g.sess()
	case "kv.set":
		if simkit.Chance(g.R, 10) {
			s.Sess = g.sess() // set carrying a session field (ignored by set semantics)
		}
	}
	return s
}

func (g *Gen) SessionCreate() Step {
	g.sessN++
	id := SessionUUID(g.sessN)
	g.Sessions = append(g.Sessions, id)
	s := Step{Op: "session.create", Sess: id, Node: g.pick(g.U.Nodes)}
	s.Behavior = g.pick([]string{"", "release", "release", "delete"})
	s.LockDelay = g.pick([]string{"0s", "0s", "1s", "15s", "60s"})
	if simkit.Chance(g.R, 25) {
		s.TTL = g.pick([]string{"10s", "30s", "300s"})
	}
	switch simkit.Weighted(g.R, []int{40, 30, 30}) {
	case 0: // default: serfHealth
	case 1:
		s.NoChecks = true
	case 2:
		s.NodeChks = []string{g.pick(g.U.Checks)}
	}
	if simkit.Chance(g.R, 20) {
		s.SvcChks = []string{g.pick(g.U.Checks) + "-" + g.pick(g.U.Services)}
	}
	if simkit.Chance(g.R, 15) {
		// the legacy Checks field, which the API accepts next to NodeChecks
		s.List = []string{g.pick(g.U.Checks)}
	}
	return s
}

func (g *Gen) SessionOp() Step {
	switch simkit.Weighted(g.R, []int{55, 35, 10}) {
	case 0:
		return g.SessionCreate()
	case 1:
		return Step{Op: "session.destroy", Sess: g.sess()}
	}
	return Step{Op: "session.renew", Sess: g.sess()}
}

func (g *Gen) TxnOp() Step {
	switch simkit.Weighted(g.R, []int{55, 10, 12, 12, 11}) {
	case 0:
		return g.KV(true)
	case 1:
		ni := g.nodeIdx()
		s := Step{Op: "node." + g.pick([]string{"get", "set", "cas", "delete", "delete-cas"}), Node: g.U.Nodes[ni], Addr: fmt.Sprintf("10.0.0.%d", ni+1)}
		if simkit.Chance(g.R, 60) {
			s.NodeID = NodeUUID(ni + 1)
		}
		s.Idx = g.symIdx()
		return s
	case 2:
		s := Step{Node: g.pick(g.U.Nodes)}
		g.fillService(&s)
		s.Op = "service." + g.pick([]string{"get", "set", "cas", "delete", "delete-cas"})
		s.Idx = g.symIdx()
		return s
	case 3:
		s := Step{Op: "check." + g.pick([]string{"get", "set", "cas", "delete", "delete-cas"}), Node: g.pick(g.U.Nodes)}
		c := Check{ID: g.pick(g.U.Checks), Status: g.status()}
		if simkit.Chance(g.R, 40) {
			c.SvcID = g.pick(g.U.Services)
			c.ID += "-" + c.SvcID
		}
		s.Checks = []Check{c}
		s.Idx = g.symIdx()
		return s
	}
	return Step{Op: "session.delete", Sess: g.sess()}
}

func (g *Gen) Txn() Step {
	n := 1 + g.R.IntN(6)
	s := Step{Op: "txn"}
	for i := 0; i < n; i++ {
		s.Ops = append(s.Ops, g.TxnOp())
	}
	return s
}

func (g *Gen) Advance() Step {
	return Step{Op: "advance", Dur: g.pick([]string{"1ms", "900ms", "1s", "1100ms", "14s", "15s", "16s", "20s", "30s", "61s", "5m", "16m", "1h", "72h"})}
}

func (g *Gen) Reap() Step {
	return Step{Op: "reap", Idx: g.pick([]string{"all", "none", "half", "half"})}
}

// Macro returns a short scripted scenario (several steps) around a rare but important situation; plans
// splice a few of these between random steps so that the situation arises in a useful fraction of runs.
func (g *Gen) Macro() []Step {
	switch g.R.IntN(3) {
	case 0:
		// lock-delay window: a session with a lock-delay holds a key and ends; after the delay has passed on
		// the leader's clock another session takes the lock. Whether a replica that applies these entries
		// at another pace agrees is C01's business; the KV outcome is C03's.
		node := g.pick(g.U.Nodes)
		key := g.pick(g.U.Keys)
		if key == "" {
			key = "a"
		}
		s1, s2 := g.SessionCreate(), g.SessionCreate()
		s1.Node, s2.Node = node, node
		s1.LockDelay, s1.NoChecks, s1.NodeChks, s1.SvcChks, s1.TTL = g.pick([]string{"1s", "15s", "60s"}), true, nil, nil, ""
		s2.NoChecks, s2.NodeChks, s2.SvcChks, s2.TTL = true, nil, nil, ""
		wait := map[string]string{"1s": "1100ms", "15s": "16s", "60s": "61s"}[s1.LockDelay]
		return []Step{
			{Op: "register", Node: node, Addr: "10.0.0.7"},
			s1,
			{Op: "kv.lock", Key: key, Val: "held", Sess: s1.Sess},
			{Op: "session.destroy", Sess: s1.Sess},
			{Op: "advance", Dur: wait},
			s2,
			{Op: "kv.lock", Key: key, Val: "taken", Sess: s2.Sess},
		}
	case 1:
		// a session bound to a check that goes critical through an update that carries no status
		node := g.pick(g.U.Nodes)
		s1 := g.SessionCreate()
		s1.Node, s1.NoChecks, s1.NodeChks, s1.SvcChks, s1.TTL = node, false, []string{"c1"}, nil, ""
		s2 := g.SessionCreate()
		s2.Node, s2.NoChecks, s2.NodeChks, s2.SvcChks, s2.TTL = node, false, []string{"c1"}, nil, ""
		key := "b"
		return []Step{
			{Op: "register", Node: node, Addr: "10.0.0.7", Checks: []Check{{ID: "c1", Status: "passing"}}},
			s1, s2,
			{Op: "kv.lock", Key: key, Val: "x", Sess: s1.Sess},
			{Op: "kv.lock", Key: "ab", Val: "y", Sess: s2.Sess},
			{Op: "register", Node: node, SkipNode: true, Checks: []Check{{ID: "c1", Status: g.pick([]string{"", "critical", "warning"})}}},
		}
	default:
		// tag-filtered / node-meta changes on a node that already has services
		node := g.pick(g.U.Nodes)
		svc := g.pick(g.U.Services)
		return []Step{
			{Op: "register", Node: node, Addr: "10.0.0.7", Svc: svc, SvcID: svc + "1", Port: 8000, Tags: []string{"v1"}, NodeMeta: "rack=r1"},
			{Op: "register", Node: node, Addr: "10.0.0.7", Svc: svc, SvcID: svc + "1", Port: 8000, Tags: []string{g.pick([]string{"v2", "primary"})}},
			{Op: "register", Node: node, Addr: "10.0.0.7", NodeMeta: "rack=" + g.pick([]string{"r2", "r3"})},
		}
	}
}

// Next draws one step according to the weights.
func (g *Gen) Next() Step {
	w := g.W
	fams := []int{w.Register, w.Deregister, w.KV, w.Session, w.Txn, w.Reap, w.Advance, w.Snapshot, w.Restart, w.Ext}
	var s Step
	switch simkit.Weighted(g.R, fams) {
	case 0:
		s = g.Register()
	case 1:
		s = g.Deregister()
	case 2:
		s = g.KV(false)
	case 3:
		s = g.SessionOp()
	case 4:
		s = g.Txn()
	case 5:
		s = g.Reap()
	case 6:
		s = g.Advance()
	case 7:
		s = Step{Op: "leader.snapshot"}
	case 8:
		s = Step{Op: "leader.restart"}
	case 9:
		s = g.Ext()
	}
	if w.Fault > 0 && s.Op != "advance" && s.Op[:2] != "le" && simkit.Chance(g.R, w.Fault) {
		s.Fault = g.pick([]string{"not-leader", "lost-reply"})
	}
	if simkit.Chance(g.R, 15) {
		s.Gap = 1 + g.R.IntN(2)
	}
	return s
}
