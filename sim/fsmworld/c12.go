//go:build verif

package fsmworld

import (
	"crypto/ecdsa"
	"crypto/elliptic"
	"crypto/rand"
	"crypto/x509"
	"crypto/x509/pkix"
	"encoding/asn1"
	"encoding/pem"
	"fmt"
	"math/big"
	mrand "math/rand/v2"
	"net"
	"net/url"
	"os"
	"strings"
	"testing"
	"time"

	"github.com/hashicorp/consul/acl"
	"github.com/hashicorp/consul/agent/consul"
	"github.com/hashicorp/consul/agent/structs"
	"github.com/hashicorp/consul/internal/verifsim/simkit"
)

// C12: the Connect CA issues only authorized, verifiable identities.
//
// The real CAManager with the real built-in (Consul) provider runs on a leader
// shell: its state (CA config, provider state with the private key, roots, the
// serial counter, the leaf index) lives in the real FSM behind the simulated
// log, so every step of initialization, rotation and signing that goes through
// Raft may fail before the append or lose its reply, and the leader may be
// replaced (a new shell initializes its CA from what was persisted). Generated
// histories mix CA configuration updates (rotations to another key type,
// conditional updates with stale indexes, no-op updates), failovers, clock
// advances and certificate requests of every shape: zero, one or several URI
// SANs; DNS, IP and e-mail SANs; service, agent, server and mesh-gateway
// identities; foreign trust domains and datacenters; URL-escaped and
// case-varied segments; extra or missing path segments - presented with
// generated authorizers.
//
// For every certificate that is issued: the request carried exactly one URI and
// no e-mail SAN; an independent parser reads a supported identity from it, in
// this trust domain (agents: rewritten to it) and datacenter; the authorizer
// grants write on exactly that service / node / mesh / acl scope; the
// certificate carries that identity and nothing else, is not a CA, has a serial
// no earlier certificate of the run had, and verifies against the root that is
// active at that moment. After every log entry: at most one root is active and,
// once the CA is initialized, exactly one. A well-formed authorized request is
// issued when nothing failed.
type C12 struct{}

func (C12) Decode(raw []byte) (simkit.Plan, error) { return DecodePlan(raw) }

var debugC12 = os.Getenv("VERIF_DEBUG_C12") != ""

const caClusterID = "11111111-2222-3333-4444-555555555555"
const caTrustDomain = caClusterID + ".consul"

func (C12) Generate(rng *mrand.Rand, tier string, runIdx uint64) simkit.Plan {
	p := &Plan{Cfg: Cfg{GCTTL: "15m", GCGran: "30s", Extra: map[string]string{}}}
	faulty := simkit.Chance(rng, 50)
	p.Steps = append(p.Steps, Step{Op: "ca.set-config", Text: "72h", Idx: "zero"})
	if faulty && simkit.Chance(rng, 40) {
		// the very first initialization is cut short at one of its Raft applies
		s := Step{Op: "raft.faults"}
		for i, k := 0, 1+rng.IntN(5); i < k; i++ {
			s.List = append(s.List, "")
		}
		s.List[len(s.List)-1] = simkit.Pick(rng, []string{"not-leader", "not-leader", "lost-reply"})
		p.Steps = append(p.Steps, s)
	}
	p.Steps = append(p.Steps, Step{Op: "ca.init"})
	uri := func() string {
		host := caTrustDomain
		switch rng.IntN(12) {
		case 0:
			host = "99999999-2222-3333-4444-555555555555.consul" // foreign trust domain
		case 1:
			host = strings.ToUpper(caTrustDomain)
		case 2:
			host = "dummy.consul"
		}
		dc := simkit.Pick(rng, []string{"dc1", "dc1", "dc1", "dc1", "dc2", "DC1", "dc%31"})
		svc := simkit.Pick(rng, []string{"web", "web", "api", "we%62", "WEB", "web%2Fx", "a/b", "", "a+b", "a+%62", "a%20b"})
		node := simkit.Pick(rng, []string{"n1", "n2", "n%31", "N1"})
		ns := simkit.Pick(rng, []string{"default", "default", "default", "other", "de%66ault"})
		switch simkit.Weighted(rng, []int{50, 18, 8, 8, 4, 4, 4, 4}) {
		case 0:
			return fmt.Sprintf("spiffe://%s/ns/%s/dc/%s/svc/%s", host, ns, dc, svc)
		case 1:
			return fmt.Sprintf("spiffe://%s/agent/client/dc/%s/id/%s", host, dc, node)
		case 2:
			return fmt.Sprintf("spiffe://%s/gateway/mesh/dc/%s", host, dc)
		case 3:
			return fmt.Sprintf("spiffe://%s/agent/server/dc/%s", host, dc)
		case 4:
			return fmt.Sprintf("spiffe://%s/ap/%s/ns/%s/dc/%s/svc/%s", host, simkit.Pick(rng, []string{"default", "other"}), ns, dc, svc)
		case 5:
			return fmt.Sprintf("spiffe://%s/ns/%s/dc/%s/svc/%s/extra", host, ns, dc, svc)
		case 6:
			return fmt.Sprintf("https://%s/ns/%s/dc/%s/svc/%s", host, ns, dc, svc)
		default:
			return fmt.Sprintf("spiffe://%s/NS/%s/DC/%s/SVC/%s", host, ns, dc, svc)
		}
	}
	rules := func() string {
		var lines []string
		for i, n := 0, rng.IntN(4); i < n; i++ {
			switch rng.IntN(7) {
			case 0, 1:
				lines = append(lines, fmt.Sprintf("service %q { policy = %q }", simkit.Pick(rng, []string{"web", "api", "we%62", "WEB", "web/x", "a/b", "a+b", "a b"}), simkit.Pick(rng, []string{"write", "write", "read"})))
			case 2:
				lines = append(lines, fmt.Sprintf("service_prefix %q { policy = %q }", simkit.Pick(rng, []string{"", "we", "a"}), simkit.Pick(rng, []string{"write", "read", "deny"})))
			case 3:
				lines = append(lines, fmt.Sprintf("node %q { policy = %q }", simkit.Pick(rng, []string{"n1", "n2", "N1"}), simkit.Pick(rng, []string{"write", "read"})))
			case 4:
				lines = append(lines, fmt.Sprintf("node_prefix %q { policy = %q }", simkit.Pick(rng, []string{"", "n"}), simkit.Pick(rng, []string{"write", "read"})))
			case 5:
				lines = append(lines, fmt.Sprintf("mesh = %q", simkit.Pick(rng, []string{"write", "read"})))
			case 6:
				lines = append(lines, fmt.Sprintf("acl = %q", simkit.Pick(rng, []string{"write", "read"})))
			}
		}
		seen := map[string]bool{}
		var out []string
		for _, l := range lines {
			k := strings.SplitN(l, "{", 2)[0]
			if strings.Contains(l, "=") && !strings.Contains(l, "{") {
				k = strings.SplitN(l, "=", 2)[0]
			}
			if !seen[k] {
				seen[k] = true
				out = append(out, l)
			}
		}
		return strings.Join(out, "\n")
	}
	n := 10 + rng.IntN(40)
	for len(p.Steps) < n {
		switch simkit.Weighted(rng, []int{60, 12, 6, 6, 6, 10, 5}) {
		case 6:
			// a rotation whose conditional write loses against another writer of the roots table, then requests
			p.Steps = append(p.Steps, Step{Op: "raft.faults", List: []string{"race", "race", "race", "race"}},
				Step{Op: "ca.update", Text: simkit.Pick(rng, []string{"ec:384", "ec:224", "ec:256"}), Text2: "72h"})
			for i, k := 0, 1+rng.IntN(3); i < k; i++ {
				p.Steps = append(p.Steps, Step{Op: "ca.sign", Text: `service_prefix "" { policy = "write" }`,
					List: []string{fmt.Sprintf("spiffe://%s/ns/default/dc/dc1/svc/%s", caTrustDomain, simkit.Pick(rng, []string{"web", "api"}))}})
			}
		case 0:
			s := Step{Op: "ca.sign", Text: rules()}
			nuri := simkit.Weighted(rng, []int{6, 82, 12})
			for i := 0; i < nuri; i++ {
				s.List = append(s.List, uri())
			}
			if simkit.Chance(rng, 15) {
				s.List2 = append(s.List2, "dns:web.service.consul")
			}
			if simkit.Chance(rng, 10) {
				s.List2 = append(s.List2, "ip:10.0.0.9")
			}
			if simkit.Chance(rng, 8) {
				s.List2 = append(s.List2, "email:ops@example.com")
			}
			if simkit.Chance(rng, 7) {
				// the request asks for more than an identity: basic constraints CA:TRUE and key usage cert-sign
				s.List2 = append(s.List2, "ext:ca")
			}
			p.Steps = append(p.Steps, s)
		case 1:
			// configuration update: another key type forces a new root (rotation); same type is a plain update
			s := Step{Op: "ca.update", Text: simkit.Pick(rng, []string{"ec:256", "ec:384", "ec:256", "ec:224"}), Text2: simkit.Pick(rng, []string{"72h", "24h"}),
				Idx: simkit.Pick(rng, []string{"", "", "cur", "stale"})}
			// the request may name no cluster id, or somebody else's: the cluster keeps its own
			s.Name = simkit.Pick(rng, []string{"", "", "", "", "none", "foreign"})
			p.Steps = append(p.Steps, s)
		case 2:
			p.Steps = append(p.Steps, Step{Op: "ca.failover"})
		case 3:
			p.Steps = append(p.Steps, Step{Op: "advance", Dur: simkit.Pick(rng, []string{"1s", "1m", "1h", "30h"})})
		case 4:
			p.Steps = append(p.Steps, Step{Op: "ca.init"})
		case 5:
			if faulty {
				s := Step{Op: "raft.faults"}
				for i, k := 0, 1+rng.IntN(4); i < k; i++ {
					s.List = append(s.List, simkit.Pick(rng, []string{"", "", "not-leader", "lost-reply", "race", "race"}))
				}
				p.Steps = append(p.Steps, s)
			}
		}
	}
	return p
}

func (w C12) Execute(t *testing.T, pl simkit.Plan, r *simkit.Run) (v *simkit.Violation) {
	if err := simkit.Bubble(t, func() { v = w.execute(pl.(*Plan), r) }); err != nil {
		return &simkit.Violation{Property: "C12", Class: "harness-panic", Invariant: "no-escaped-panic", Detail: err.Error()}
	}
	return v
}

// refIdentity: what an independent, strict reader of the documented SPIFFE layouts sees in a URI.
type refIdentity struct {
	kind                 string // service agent server mesh-gateway
	host, ap, ns, dc, id string
}

func unescapeSeg(s string) (string, bool) {
	u, err := url.PathUnescape(s)
	return u, err == nil && u != ""
}

func parseRefIdentity(u *url.URL) (refIdentity, bool) {
	if u.Scheme != "spiffe" || u.RawQuery != "" || u.Fragment != "" || u.User != nil {
		return refIdentity{}, false
	}
	segs := strings.Split(strings.TrimPrefix(u.EscapedPath(), "/"), "/")
	out := refIdentity{host: strings.ToLower(u.Host), ap: "default"}
	if len(segs) >= 2 && segs[0] == "ap" {
		var ok bool
		if out.ap, ok = unescapeSeg(segs[1]); !ok {
			return out, false
		}
		segs = segs[2:]
	}
	get := func(i int) (string, bool) { return unescapeSeg(segs[i]) }
	var ok bool
	switch {
	case len(segs) == 6 && segs[0] == "ns" && segs[2] == "dc" && segs[4] == "svc":
		out.kind = "service"
		if out.ns, ok = get(1); !ok {
			return out, false
		}
		if out.dc, ok = get(3); !ok {
			return out, false
		}
		if out.id, ok = get(5); !ok {
			return out, false
		}
	case len(segs) == 6 && segs[0] == "agent" && segs[1] == "client" && segs[2] == "dc" && segs[4] == "id":
		out.kind = "agent"
		if out.dc, ok = get(3); !ok {
			return out, false
		}
		if out.id, ok = get(5); !ok {
			return out, false
		}
	case len(segs) == 4 && segs[0] == "agent" && segs[1] == "server" && segs[2] == "dc" && out.ap == "default" && !strings.HasPrefix(u.EscapedPath(), "/ap/"):
		out.kind = "server"
		if out.dc, ok = get(3); !ok {
			return out, false
		}
	case len(segs) == 4 && segs[0] == "gateway" && segs[1] == "mesh" && segs[2] == "dc":
		out.kind = "mesh-gateway"
		if out.dc, ok = get(3); !ok {
			return out, false
		}
	default:
		return out, false
	}
	return out, true
}

func (id refIdentity) String() string {
	return fmt.Sprintf("%s{host=%s ap=%s ns=%s dc=%s id=%s}", id.kind, id.host, id.ap, id.ns, id.dc, id.id)
}

// authorized: does the authorizer grant write on exactly the identity's scope?
func (id refIdentity) authorized(a acl.Authorizer) bool {
	switch id.kind {
	case "service":
		return a.ServiceWrite(id.id, nil) == acl.Allow
	case "agent":
		return a.NodeWrite(id.id, nil) == acl.Allow
	case "mesh-gateway":
		return a.MeshWrite(nil) == acl.Allow
	case "server":
		return a.ACLWrite(nil) == acl.Allow
	}
	return false
}

// admissible: the identity is one this cluster's CA may certify.
func (id refIdentity) admissible() string {
	switch id.kind {
	case "service":
		if id.ns != "default" || id.ap != "default" {
			return "namespace/partition"
		}
		if id.dc != "dc1" {
			return "foreign datacenter"
		}
		if id.host != caTrustDomain {
			return "foreign trust domain"
		}
	case "mesh-gateway", "server":
		if id.ap != "default" {
			return "partition"
		}
		if id.dc != "dc1" {
			return "foreign datacenter"
		}
		if id.host != caTrustDomain {
			return "foreign trust domain"
		}
	case "agent":
		// the trust domain of an agent identity is corrected by the CA (auto-encrypt asks before it knows it)
	}
	return ""
}

type caWorld struct {
	r       *simkit.Run
	C       *Cluster
	mgr     *consul.CAManager
	inited  bool
	serials map[string]int
	certs   int
	deposed bool // the leader changed during the current operation
}

func (w *caWorld) newManager() {
	w.mgr = consul.VerifNewCAManager(w.C.Shell)
	w.inited = false
}

// afterLeaderOp: a reply lost while committing means the leader was deposed; another server
// takes over and initializes its CA from what the log holds (establishLeadership).
func (w *caWorld) afterLeaderOp() {
	if !w.C.TakeLostReply() {
		return
	}
	w.r.Hit("probe.failover-after-lost-reply")
	w.C.FaultQueue = nil
	w.C.Failover()
	w.newManager()
	var err error
	w.C.Main(func() { err = consul.VerifCAInitialize(w.mgr) })
	w.C.TakeLostReply()
	_, active, _ := w.C.L.State().CARootActive(nil)
	w.inited = err == nil && active != nil
	w.deposed = true
}

func (w *caWorld) rootsInvariant(step int, what string) *simkit.Violation {
	_, roots, err := w.C.L.State().CARoots(nil)
	if err != nil {
		panic(err)
	}
	active := 0
	for _, ro := range roots {
		if ro.Active {
			active++
		}
	}
	w.r.Hit("probe.root-set-judged")
	if len(roots) > 0 && active != 1 {
		return &simkit.Violation{Property: "C12", Class: "root-set-broken", Invariant: "exactly-one-active-root", Step: step, Culprit: what,
			Detail: fmt.Sprintf("after %s the root set holds %d roots of which %d are active", what, len(roots), active)}
	}
	return nil
}

func buildCSR(uris, extras []string) (*x509.CertificateRequest, error) {
	key, err := ecdsa.GenerateKey(elliptic.P256(), rand.Reader)
	if err != nil {
		return nil, err
	}
	tpl := &x509.CertificateRequest{SignatureAlgorithm: x509.ECDSAWithSHA256}
	for _, u := range uris {
		pu, err := url.Parse(u)
		if err != nil {
			return nil, err
		}
		tpl.URIs = append(tpl.URIs, pu)
	}
	for _, e := range extras {
		switch {
		case strings.HasPrefix(e, "dns:"):
			tpl.DNSNames = append(tpl.DNSNames, e[4:])
		case strings.HasPrefix(e, "ip:"):
			tpl.IPAddresses = append(tpl.IPAddresses, net.ParseIP(e[3:]))
		case strings.HasPrefix(e, "email:"):
			tpl.EmailAddresses = append(tpl.EmailAddresses, e[6:])
		case e == "ext:ca":
			bc, err := asn1.Marshal(struct {
				IsCA bool `asn1:"optional"`
			}{true})
			if err != nil {
				return nil, err
			}
			ku, err := asn1.Marshal(asn1.BitString{Bytes: []byte{0x06}, BitLength: 7}) // keyCertSign, cRLSign
			if err != nil {
				return nil, err
			}
			tpl.ExtraExtensions = append(tpl.ExtraExtensions,
				pkix.Extension{Id: asn1.ObjectIdentifier{2, 5, 29, 19}, Critical: true, Value: bc},
				pkix.Extension{Id: asn1.ObjectIdentifier{2, 5, 29, 15}, Critical: true, Value: ku})
		}
	}
	der, err := x509.CreateCertificateRequest(rand.Reader, tpl, key)
	if err != nil {
		return nil, err
	}
	// the endpoint parses what came over the wire
	return x509.ParseCertificateRequest(der)
}

func parsePEMCerts(s string) []*x509.Certificate {
	var out []*x509.Certificate
	rest := []byte(s)
	for {
		var b *pem.Block
		b, rest = pem.Decode(rest)
		if b == nil {
			return out
		}
		c, err := x509.ParseCertificate(b.Bytes)
		if err != nil {
			panic(err)
		}
		out = append(out, c)
	}
}

func (w *caWorld) sign(i int, s Step) *simkit.Violation {
	mk := func(class, inv, detail string) *simkit.Violation {
		return &simkit.Violation{Property: "C12", Class: class, Invariant: inv, Step: i, Culprit: "sign",
			Detail: fmt.Sprintf("CSR with URIs %q, other SANs %v, presented with rules {%s}: %s", s.List, s.List2, strings.ReplaceAll(s.Text, "\n", "; "), detail)}
	}
	csr, err := buildCSR(s.List, s.List2)
	if err != nil {
		w.r.Hit("probe.csr-not-constructible")
		return nil
	}
	pol, err := acl.NewPolicyFromSource(s.Text, nil, nil)
	if err != nil {
		panic(fmt.Sprintf("generated rules do not parse: %v\n%s", err, s.Text))
	}
	authz, err := acl.NewPolicyAuthorizerWithDefaults(acl.DenyAll(), []*acl.Policy{pol}, nil)
	if err != nil {
		panic(err)
	}
	// reference verdict, before the CA sees the request
	var id refIdentity
	expect, why := true, ""
	switch {
	case len(csr.URIs) != 1:
		expect, why = false, fmt.Sprintf("%d URI SANs", len(csr.URIs))
	case len(csr.EmailAddresses) > 0:
		expect, why = false, "e-mail SAN"
	default:
		var ok bool
		if id, ok = parseRefIdentity(csr.URIs[0]); !ok {
			expect, why = false, "not a supported SPIFFE identity"
		} else if reason := id.admissible(); reason != "" {
			expect, why = false, reason
		} else if !id.authorized(authz) {
			expect, why = false, "not authorized for "+id.String()
		}
	}
	nlog := len(w.C.Log)
	w.deposed = false
	faultsBefore := w.r.Counters["fault.propose-not-leader"] + w.r.Counters["fault.propose-lost-reply"]
	var cert *structs.IssuedCert
	w.C.Main(func() { cert, err = consul.VerifCASign(w.mgr, csr, authz) })
	w.afterLeaderOp()
	if debugC12 {
		_, cfg, _ := w.C.L.State().CAConfig(nil)
		fmt.Printf("DEBUG sign err=%v cluster=%v\n", err, cfg.ClusterID)
	}
	faulted := w.deposed || w.r.Counters["fault.propose-not-leader"]+w.r.Counters["fault.propose-lost-reply"] != faultsBefore
	w.r.Eventf("sign uris=%d expect=%v(%s) issued=%v entries=%d", len(csr.URIs), expect, why, err == nil, len(w.C.Log)-nlog)
	w.r.Sig(fmt.Sprintf("sign:%v:%v:%s", expect, err == nil, id.kind))
	w.r.Hit("probe.sign-requests")
	if _, cfg, _ := w.C.L.State().CAConfig(nil); cfg == nil || cfg.ClusterID != caClusterID {
		// (a shrunk plan without the configuration step: the CA made up its own cluster id, the
		// generated URIs name another trust domain)
		return nil
	}
	if err != nil {
		if expect && w.inited && !faulted {
			return mk("valid-request-refused", "authorized-well-formed-request-is-issued", fmt.Sprintf("the request names %s, which the rules allow, and nothing failed, but the CA answered: %v", id, err))
		}
		w.r.Hit("probe.sign-refused")
		return nil
	}
	w.r.Hit("probe.sign-issued")
	if !expect {
		return mk("unauthorized-issue", "issued-only-for-one-authorized-identity-of-this-cluster", "a certificate was issued although the request has "+why)
	}
	chain := parsePEMCerts(cert.CertPEM)
	if len(chain) == 0 {
		return mk("bad-certificate", "certificate-parses", "no certificate in the answer")
	}
	leaf := chain[0]
	// carries exactly that identity
	if len(leaf.URIs) != 1 || len(leaf.EmailAddresses) != 0 {
		return mk("bad-certificate", "certificate-carries-exactly-the-identity", fmt.Sprintf("the certificate has %d URI SANs and %d e-mail SANs", len(leaf.URIs), len(leaf.EmailAddresses)))
	}
	got, ok := parseRefIdentity(leaf.URIs[0])
	want := id
	if want.kind == "agent" {
		want.host = caTrustDomain
	}
	if !ok || got != want {
		return mk("bad-certificate", "certificate-carries-exactly-the-identity", fmt.Sprintf("authorized identity %s, the certificate's URI %q reads as %s (ok=%v)", want, leaf.URIs[0], got, ok))
	}
	if leaf.IsCA || !leaf.BasicConstraintsValid || leaf.KeyUsage&x509.KeyUsageCertSign != 0 {
		return mk("bad-certificate", "leaf-is-not-a-ca", fmt.Sprintf("IsCA=%v BasicConstraintsValid=%v KeyUsage=%b", leaf.IsCA, leaf.BasicConstraintsValid, leaf.KeyUsage))
	}
	serial := leaf.SerialNumber.String()
	if prev, dup := w.serials[serial]; dup {
		return mk("serial-reused", "serial-never-used-before", fmt.Sprintf("serial %s was already given to certificate #%d of this run", serial, prev))
	}
	w.certs++
	w.serials[serial] = w.certs
	if leaf.SerialNumber.Cmp(big.NewInt(0)) <= 0 {
		return mk("bad-certificate", "serial-never-used-before", "non-positive serial "+serial)
	}
	// chains to the currently active root
	_, active, err := w.C.L.State().CARootActive(nil)
	if err != nil || active == nil {
		return mk("bad-certificate", "chains-to-the-active-root", fmt.Sprintf("a certificate was issued but the store has no active root (%v)", err))
	}
	pool, inter := x509.NewCertPool(), x509.NewCertPool()
	for _, c := range parsePEMCerts(active.RootCert) {
		pool.AddCert(c)
	}
	for _, c := range chain[1:] {
		inter.AddCert(c)
	}
	if _, err := leaf.Verify(x509.VerifyOptions{Roots: pool, Intermediates: inter, CurrentTime: time.Now(), KeyUsages: []x509.ExtKeyUsage{x509.ExtKeyUsageAny}}); err != nil {
		return mk("bad-certificate", "chains-to-the-active-root", fmt.Sprintf("the certificate does not verify against the active root %s: %v", active.ID, err))
	}
	w.r.Hit("probe.certificates-verified")
	return nil
}

func (C12) execute(p *Plan, r *simkit.Run) *simkit.Violation {
	w := &caWorld{r: r, serials: map[string]int{}}
	w.C = NewCluster(r, parseDur(p.Cfg.GCTTL, 15*time.Minute), parseDur(p.Cfg.GCGran, 30*time.Second))
	// The CA manager reads the roots, builds its conditional write and proposes it; root pruning and the
	// leftover write of a deposed leader go through the same table without the manager's lock. "race":
	// such a write (the stored roots again, at the current index) is committed just before the
	// manager's, whose condition then no longer holds.
	w.C.RaceHook = func(t structs.MessageType, buf []byte) bool {
		if t != structs.ConnectCARequestType {
			return false
		}
		var req structs.CARequest
		if err := structs.Decode(buf[1:], &req); err != nil || req.Op != structs.CAOpSetRootsAndConfig {
			return false
		}
		idx, roots, err := w.C.L.State().CARoots(nil)
		if err != nil || len(roots) == 0 {
			return false
		}
		var cp structs.CARoots
		for _, rt := range roots {
			cp = append(cp, rt.Clone())
		}
		resp := w.C.CommitForeign(structs.ConnectCARequestType, &structs.CARequest{Op: structs.CAOpSetRoots, Datacenter: "dc1", Index: idx, Roots: cp}, "race: another routine rewrites the roots")
		return resp == true
	}
	defer w.C.Close()
	w.newManager()
	var viol *simkit.Violation
	cur := 0
	w.C.OnCommit = func(e Entry, _ any) {
		if viol == nil {
			viol = w.rootsInvariant(cur, opOfDesc(e.Desc))
		}
	}
	for i, s := range p.Steps {
		cur = i
		r.Steps++
		w.deposed = false
		switch s.Op {
		case "ca.sign":
			if v := w.sign(i, s); v != nil {
				return v
			}
		case "ca.init":
			var err error
			w.C.Main(func() { err = consul.VerifCAInitialize(w.mgr) })
			w.afterLeaderOp()
			if _, active, _ := w.C.L.State().CARootActive(nil); !w.deposed {
				w.inited = err == nil && active != nil
			}
			r.Eventf("ca.init -> err=%v", err != nil)
			if debugC12 {
				_, cfg, _ := w.C.L.State().CAConfig(nil)
				fmt.Printf("DEBUG cfg=%+v\n", cfg)
				w.C.L.State().WalkAllTables(func(table string, item interface{}) bool {
					if strings.HasPrefix(table, "connect-ca") {
						fmt.Printf("DEBUG %s: %s\n", table, simkit.Trunc(simkit.Canon(item), 400))
					}
					return true
				})
			}
			r.Sig(fmt.Sprintf("init:%v", err != nil))
			r.Hit("probe.ca-initializations")
		case "ca.update":
			kt := strings.SplitN(s.Text, ":", 2)
			var bits int
			fmt.Sscan(kt[1], &bits)
			_, curCfg, _ := w.C.L.State().CAConfig(nil)
			cfg := &structs.CAConfiguration{ClusterID: caClusterID, Provider: "consul",
				Config: map[string]interface{}{"LeafCertTTL": s.Text2, "RootCertTTL": "87600h", "IntermediateCertTTL": "8760h", "PrivateKeyType": kt[0], "PrivateKeyBits": bits,
					"CSRMaxPerSecond": 0, "CSRMaxConcurrent": 0}}
			if s.Idx != "" && curCfg != nil {
				cfg.ModifyIndex = resolveIdx(s.Idx, curCfg.ModifyIndex)
			}
			switch s.Name {
			case "none":
				cfg.ClusterID = ""
			case "foreign":
				cfg.ClusterID = "99999999-2222-3333-4444-555555555555"
			}
			ours := curCfg != nil && curCfg.ClusterID == caClusterID
			_, before, _ := w.C.L.State().CARootActive(nil)
			var err error
			w.C.Main(func() {
				err = consul.VerifCAUpdateConfiguration(w.mgr, &structs.CARequest{Op: structs.CAOpSetConfig, Datacenter: "dc1", Config: cfg})
			})
			w.afterLeaderOp()
			_, after, _ := w.C.L.State().CARootActive(nil)
			rotated := before != nil && after != nil && before.ID != after.ID
			if rotated {
				r.Hit("probe.root-rotations")
			}
			if after != nil && !w.deposed {
				w.inited = w.inited || err == nil
			}
			if _, now, _ := w.C.L.State().CAConfig(nil); ours && (now == nil || now.ClusterID != caClusterID) {
				// every identity the CA certifies from here on belongs to another trust domain than the one the roots were made for
				return &simkit.Violation{Property: "C12", Class: "unauthorized-cert", Invariant: "trust-domain-never-moves", Step: i, Culprit: "ca.update",
					Detail: fmt.Sprintf("a configuration update naming cluster id %q replaced the cluster id %s (err=%v): the CA now issues and accepts identities of trust domain %s.consul under the roots of %s", cfg.ClusterID, caClusterID, err, cfg.ClusterID, caTrustDomain)}
			}
			r.Eventf("ca.update %s idx=%s id=%s -> err=%v rotated=%v", s.Text, s.Idx, s.Name, err != nil, rotated)
			r.Sig(fmt.Sprintf("update:%v:%v", err != nil, rotated))
		case "ca.failover":
			w.C.Failover()
			w.newManager()
			var err error
			w.C.Main(func() { err = consul.VerifCAInitialize(w.mgr) })
			w.afterLeaderOp()
			if _, active, _ := w.C.L.State().CARootActive(nil); !w.deposed {
				w.inited = err == nil && active != nil
			}
			r.Eventf("failover, ca.init -> err=%v", err != nil)
			r.Hit("probe.failovers")
		case "raft.faults":
			w.C.FaultQueue = append([]string{}, s.List...)
		case "advance":
			d := parseDur(s.Dur, time.Second)
			time.Sleep(d)
			r.AdvanceSim(d)
		default:
			w.C.Do(s)
		}
		if w.C.Fatal != nil {
			return &simkit.Violation{Property: "C12", Class: "panic", Invariant: "apply-does-not-panic", Step: i, Culprit: s.Op, Detail: w.C.Fatal.Error()}
		}
		if viol != nil {
			return viol
		}
	}
	r.Nontrivial = w.certs >= 1 || len(w.C.Log) >= 4
	return nil
}
