//go:build verif

// Package resourceworld (W3, step mode) decides C18: the resource store's
// version CAS, UID stability and ordered watches.
//
// Real internal/storage/raft.Backend (leader) over the simulated log, real
// internal/storage/inmem.Store underneath, real stream publisher inside the
// store. Store.Run is not started: publication of a committed event batch is
// the plan step "drain". Clients remember what they last read and write with
// that (possibly stale) version and uid; watchers are tasks with at most one
// outstanding Next. Snapshot/restore happens in the middle.
package resourceworld

import (
	"context"
	"encoding/json"
	"errors"
	"fmt"
	"math/rand/v2"
	"sort"
	"strconv"
	"strings"
	"testing"
	"testing/synctest"

	"github.com/hashicorp/go-hclog"
	"google.golang.org/grpc"
	"google.golang.org/protobuf/types/known/anypb"
	"google.golang.org/protobuf/types/known/wrapperspb"

	"github.com/hashicorp/consul/internal/storage"
	"github.com/hashicorp/consul/internal/storage/inmem"
	raftstorage "github.com/hashicorp/consul/internal/storage/raft"
	"github.com/hashicorp/consul/internal/verifsim/simkit"
	"github.com/hashicorp/consul/proto-public/pbresource"
)

type Step struct {
	Op     string `json:"op"`          // write delete read list listowner watch wnext wclose drain snapshot restore
	C      int    `json:"c,omitempty"` // client
	Name   string `json:"name,omitempty"`
	NS     string `json:"ns,omitempty"`
	Data   string `json:"data,omitempty"`
	Vsn    string `json:"vsn,omitempty"` // read | stale | empty | bogus
	UID    string `json:"uid,omitempty"` // read | new | wrong
	Owner  string `json:"owner,omitempty"`
	W      int    `json:"w,omitempty"`
	Wild   bool   `json:"wild,omitempty"`
	Prefix string `json:"prefix,omitempty"`
	N      int    `json:"n,omitempty"`
	Strong bool   `json:"strong,omitempty"`
	Lazy   bool   `json:"lazy,omitempty"` // restore: the closed watches are not released by their owners until later
	Twice  bool   `json:"twice,omitempty"` // wclose: the owner calls Close a second time (Close is idempotent: a deferred Close after an explicit one)
	// par: the operations of Par run concurrently against the store; Sched decides, at every yield point
	// (start, waiting for the event lock, committed-but-not-yet-published), which of them goes on
	Par   []Step `json:"par,omitempty"`
	Sched []int  `json:"sched,omitempty"`
}

type Plan struct {
	Steps []Step `json:"steps"`
}

func (p *Plan) NumSteps() int { return len(p.Steps) }
func (p *Plan) Keep(keep []bool) simkit.Plan {
	q := &Plan{}
	for i, s := range p.Steps {
		if keep[i] {
			q.Steps = append(q.Steps, s)
		}
	}
	return q
}
func (p *Plan) Simplify() []simkit.Plan { return nil }

type World struct{}

func (World) Decode(raw []byte) (simkit.Plan, error) {
	var p Plan
	if err := json.Unmarshal(raw, &p); err != nil {
		return nil, err
	}
	return &p, nil
}

var names = []string{"r1", "r2", "r3"}
var nss = []string{"default", "ns2"}

func (World) Generate(rng *rand.Rand, tier string, runIdx uint64) simkit.Plan {
	p := &Plan{}
	n := 15 + rng.IntN(60)
	nclients := 2 + rng.IntN(4)
	nwatch := 1 + rng.IntN(3)
	bursts := 0
	pick := func(xs []string) string { return xs[rng.IntN(len(xs))] }
	for len(p.Steps) < n {
		c := rng.IntN(nclients)
		switch simkit.Weighted(rng, []int{26, 10, 16, 4, 3, 8, 14, 2, 12, 2, 3, 9, 2}) {
		case 12:
			// more writes than the publisher's queue holds, while nothing is published: the writer has to wait for room
			if bursts < 2 {
				bursts++
				p.Steps = append(p.Steps, Step{Op: "burst", N: 66 + rng.IntN(40)})
			}
		case 11:
			st := Step{Op: "par"}
			shared := pick(names)
			for j, n := 0, 2+rng.IntN(2); j < n; j++ {
				name := shared
				if simkit.Chance(rng, 40) {
					name = pick(names)
				}
				if simkit.Chance(rng, 55) {
					st.Par = append(st.Par, Step{Op: "write", Name: name, NS: "default", Data: fmt.Sprintf("p%d", rng.IntN(1000)),
						Vsn: pick([]string{"read", "read", "read", "empty", "peer", "stale"}), UID: pick([]string{"read", "read", "new"})})
				} else {
					st.Par = append(st.Par, Step{Op: "delete", Name: name, NS: "default", Vsn: pick([]string{"read", "read", "read", "stale"})})
				}
			}
			for j := 0; j < 12; j++ {
				st.Sched = append(st.Sched, rng.IntN(6))
			}
			p.Steps = append(p.Steps, st)
		case 0:
			s := Step{Op: "write", C: c, Name: pick(names), NS: pick(nss[:1+rng.IntN(2)]), Data: fmt.Sprintf("d%d", rng.IntN(1000)),
				Vsn: pick([]string{"read", "read", "read", "stale", "empty", "bogus"}), UID: pick([]string{"read", "read", "read", "new", "wrong"})}
			if simkit.Chance(rng, 20) {
				s.Owner = pick(names)
			}
			p.Steps = append(p.Steps, s)
		case 1:
			p.Steps = append(p.Steps, Step{Op: "delete", C: c, Name: pick(names), NS: pick(nss[:1+rng.IntN(2)]), Vsn: pick([]string{"read", "read", "stale", "empty"}), UID: pick([]string{"read", "read", "wrong", "empty"})})
		case 2:
			p.Steps = append(p.Steps, Step{Op: "read", C: c, Name: pick(names), NS: pick(nss[:1+rng.IntN(2)]), Strong: simkit.Chance(rng, 30)})
		case 3:
			p.Steps = append(p.Steps, Step{Op: "list", NS: pick(append([]string{"*"}, nss...)), Prefix: pick([]string{"", "r", "r1"})})
		case 4:
			p.Steps = append(p.Steps, Step{Op: "listowner", Name: pick(names)})
		case 5:
			p.Steps = append(p.Steps, Step{Op: "watch", W: rng.IntN(nwatch), Wild: simkit.Chance(rng, 40), NS: pick(nss), Prefix: pick([]string{"", "", "r1"})})
		case 6:
			p.Steps = append(p.Steps, Step{Op: "wnext", W: rng.IntN(nwatch)})
		case 7:
			p.Steps = append(p.Steps, Step{Op: "wclose", W: rng.IntN(nwatch), Twice: simkit.Chance(rng, 35)})
		case 8:
			p.Steps = append(p.Steps, Step{Op: "drain", N: 1 + rng.IntN(3)})
		case 9:
			p.Steps = append(p.Steps, Step{Op: "snapshot"})
		case 10:
			p.Steps = append(p.Steps, Step{Op: "restore", Lazy: simkit.Chance(rng, 50)})
		}
	}
	return p
}

var resType = &pbresource.Type{Group: "verif", GroupVersion: "v1", Kind: "Thing"}

func tenancy(ns string) *pbresource.Tenancy {
	return &pbresource.Tenancy{Partition: "default", Namespace: ns}
}

func rid(name, ns, uid string) *pbresource.ID {
	return &pbresource.ID{Type: resType, Tenancy: tenancy(ns), Name: name, Uid: uid}
}

type mres struct {
	uid, version, data, owner string
}

type seen struct{ uid, version string }

// handle is the raft Handle of the leader backend: Apply appends to the simulated log and applies.
type handle struct {
	b    *raftstorage.Backend
	next uint64
	log  [][]byte
	r    *simkit.Run
}

func (h *handle) Apply(msg []byte) (any, error) {
	h.next++
	h.log = append(h.log, msg)
	rsp := h.b.Apply(msg, h.next)
	if err, ok := rsp.(error); ok {
		return nil, err
	}
	return rsp, nil
}
func (h *handle) IsLeader() bool                                { return true }
func (h *handle) EnsureStrongConsistency(context.Context) error { return nil }

type watcher struct {
	id           int
	w            storage.Watch
	wild         bool
	ns           string
	prefix       string
	view         map[string]*mres
	lastVsn      map[string]uint64
	snap         bool
	pending      chan wres
	afterRestore bool
}
type wres struct {
	ev  *pbresource.WatchEvent
	err error
}

func key(name, ns string) string { return ns + "/" + name }

func (w *watcher) matches(name, ns string) bool {
	if !w.wild && ns != w.ns {
		return false
	}
	return strings.HasPrefix(name, w.prefix)
}

func (wd World) Execute(t *testing.T, pl simkit.Plan, r *simkit.Run) (v *simkit.Violation) {
	if err := simkit.Bubble(t, func() { v = wd.execute(pl.(*Plan), r) }); err != nil {
		return &simkit.Violation{Class: "harness-panic", Invariant: "no-escaped-panic", Detail: err.Error()}
	}
	return v
}

func (World) execute(p *Plan, r *simkit.Run) *simkit.Violation {
	inmem.VerifYield = nil
	h := &handle{next: 10, r: r}
	// the Handle interface has an unexported-free method set; DialLeader is only used when forwarding
	b, err := raftstorage.NewBackend(handleAdapter{h}, hclog.NewNullLogger())
	if err != nil {
		panic(err)
	}
	h.b = b
	store := b.VerifStore()
	ctx, cancel := context.WithCancel(context.Background())
	model := map[string]*mres{}
	clients := map[int]map[string]seen{}
	watchers := map[int]*watcher{}
	uidN := 0
	var snapBytes [][]byte
	var snapModel map[string]*mres
	haveSnap := false
	var zombies []storage.Watch
	defer func() {
		cancel()
		store.VerifCloseAll()
		for _, w := range watchers {
			if w.w != nil {
				w.w.Close()
			}
		}
		for _, z := range zombies {
			z.Close()
		}
		synctest.Wait()
	}()
	cur := 0
	var curStep Step
	mk := func(class, inv, detail string) *simkit.Violation {
		return &simkit.Violation{Property: "C18", Class: class, Invariant: inv, Step: cur, Culprit: curStep.Op, Detail: detail}
	}
	var viol *simkit.Violation

	collect := func() {
		synctest.Wait()
		ids := make([]int, 0, len(watchers))
		for id := range watchers {
			ids = append(ids, id)
		}
		sort.Ints(ids)
		for _, id := range ids {
			w := watchers[id]
			if w.pending == nil || viol != nil {
				continue
			}
			select {
			case res := <-w.pending:
				w.pending = nil
				if res.err != nil {
					r.Hit("probe.watch-ended")
					if !errors.Is(res.err, storage.ErrWatchClosed) && !errors.Is(res.err, context.Canceled) {
						viol = mk("watch-order", "watch-ends-only-with-watch-closed", fmt.Sprintf("watch %d ended with %v", w.id, res.err))
						return
					}
					if errors.Is(res.err, storage.ErrWatchClosed) {
						r.Hit("probe.watch-closed-by-restore")
					}
					w.w.Close()
					w.w = nil
					continue
				}
				r.Hit("probe.watch-event")
				ev := res.ev
				switch {
				case ev.GetEndOfSnapshot() != nil:
					w.snap = true
					r.Sig("eos")
				case ev.GetUpsert() != nil:
					res := ev.GetUpsert().GetResource()
					k := key(res.Id.Name, res.Id.Tenancy.Namespace)
					if !w.matches(res.Id.Name, res.Id.Tenancy.Namespace) {
						viol = mk("watch-order", "watch-delivers-only-matching-resources", fmt.Sprintf("watch %d (wild=%v ns=%s prefix=%q) received %s", w.id, w.wild, w.ns, w.prefix, k))
						return
					}
					vsn, _ := strconv.ParseUint(res.Version, 10, 64)
					if vsn < w.lastVsn[k] {
						viol = mk("watch-order", "per-resource-events-in-commit-order", fmt.Sprintf("watch %d: %s version %d delivered after version %d", w.id, k, vsn, w.lastVsn[k]))
						return
					}
					w.lastVsn[k] = vsn
					w.view[k] = &mres{uid: res.Id.Uid, version: res.Version, data: dataOf(res)}
					r.Sig("up")
					// a read made after receiving the event never returns data older than the event
					got, err := store.Read(rid(res.Id.Name, res.Id.Tenancy.Namespace, ""))
					if err == nil {
						gv, _ := strconv.ParseUint(got.Version, 10, 64)
						if gv < vsn && got.Id.Uid == res.Id.Uid {
							viol = mk("read-older-than-event", "read-after-event-not-older", fmt.Sprintf("watch %d received %s@%d but a read now returns version %d", w.id, k, vsn, gv))
							return
						}
					}
				case ev.GetDelete() != nil:
					res := ev.GetDelete().GetResource()
					k := key(res.Id.Name, res.Id.Tenancy.Namespace)
					if cur, ok := w.view[k]; ok && cur.uid == res.Id.Uid {
						delete(w.view, k)
					}
					r.Sig("del")
				}
			default:
			}
		}
	}

	for i, s := range p.Steps {
		cur, curStep = i, s
		r.Steps++
		if clients[s.C] == nil {
			clients[s.C] = map[string]seen{}
		}
		k := key(s.Name, s.NS)
		switch s.Op {
		case "read":
			cons := storage.EventualConsistency
			if s.Strong {
				cons = storage.StrongConsistency
			}
			got, err := b.Read(ctx, cons, rid(s.Name, s.NS, ""))
			m := model[k]
			switch {
			case err != nil && !errors.Is(err, storage.ErrNotFound):
				return mk("not-linearizable", "read-succeeds", err.Error())
			case errors.Is(err, storage.ErrNotFound) && m != nil:
				return mk("not-linearizable", "read-equals-model", fmt.Sprintf("read %s: not found, model has version %s", k, m.version))
			case err == nil && m == nil:
				return mk("not-linearizable", "read-equals-model", fmt.Sprintf("read %s: version %s, model has nothing", k, got.Version))
			case err == nil && (got.Version != m.version || got.Id.Uid != m.uid || dataOf(got) != m.data):
				return mk("not-linearizable", "read-equals-model", fmt.Sprintf("read %s: {uid %s v%s %s}, model {uid %s v%s %s}", k, got.Id.Uid, got.Version, dataOf(got), m.uid, m.version, m.data))
			}
			if err == nil {
				clients[s.C][k] = seen{got.Id.Uid, got.Version}
			} else {
				delete(clients[s.C], k)
			}
		case "write":
			last := clients[s.C][k]
			uid := last.uid
			switch s.UID {
			case "new":
				uidN++
				uid = fmt.Sprintf("uid-%d", uidN)
			case "wrong":
				uid = "uid-wrong"
			}
			if uid == "" {
				uidN++
				uid = fmt.Sprintf("uid-%d", uidN)
			}
			vsn := last.version
			switch s.Vsn {
			case "empty":
				vsn = ""
			case "stale":
				if n, err := strconv.Atoi(vsn); err == nil && n > 1 {
					vsn = strconv.Itoa(n - 1)
				} else {
					vsn = "3"
				}
			case "bogus":
				vsn = "999999"
			}
			res := &pbresource.Resource{Id: rid(s.Name, s.NS, uid), Version: vsn, Data: mustAny(s.Data)}
			if s.Owner != "" && s.Owner != s.Name {
				if o := model[key(s.Owner, s.NS)]; o != nil {
					res.Owner = rid(s.Owner, s.NS, o.uid)
				}
			}
			got, err := b.WriteCAS(ctx, res)
			m := model[k]
			// reference semantics
			var want error
			switch {
			case m == nil && vsn != "":
				want = storage.ErrCASFailure
			case m != nil && m.uid != uid:
				want = storage.ErrWrongUid
			case m != nil && m.version != vsn:
				want = storage.ErrCASFailure
			}
			if !sameErr(err, want) {
				return mk("not-linearizable", "write-cas-verdict-equals-model", fmt.Sprintf("write %s uid=%s version=%q: store says %v, model (current %+v) says %v", k, uid, vsn, err, m, want))
			}
			r.Sig(fmt.Sprintf("w:%v", err == nil))
			if err == nil {
				if m != nil && got.Id.Uid != m.uid {
					return mk("uid-changed", "uid-stable-across-versions", fmt.Sprintf("%s: uid %s -> %s", k, m.uid, got.Id.Uid))
				}
				owner := ""
				if res.Owner != nil {
					owner = res.Owner.Name + "#" + res.Owner.Uid // ownership refers to one lifetime of the owner
				}
				model[k] = &mres{uid: uid, version: got.Version, data: s.Data, owner: owner}
				clients[s.C][k] = seen{uid, got.Version}
				r.Hit("probe.write-ok")
			} else {
				r.Hit("probe.write-refused." + errClass(err))
			}
		case "delete":
			last := clients[s.C][k]
			uid, vsn := last.uid, last.version
			switch s.UID {
			case "wrong":
				uid = "uid-wrong"
			case "empty":
				uid = ""
			}
			switch s.Vsn {
			case "empty":
				vsn = ""
			case "stale":
				vsn = "3"
			}
			err := b.DeleteCAS(ctx, rid(s.Name, s.NS, uid), vsn)
			m := model[k]
			var want error
			deleted := false
			switch {
			case m == nil || m.uid != uid:
				// no-op: nothing there, or another lifetime
			case m.version != vsn:
				want = storage.ErrCASFailure
			default:
				deleted = true
			}
			if !sameErr(err, want) {
				return mk("not-linearizable", "delete-cas-verdict-equals-model", fmt.Sprintf("delete %s uid=%q version=%q: store says %v, model (current %+v) says %v", k, uid, vsn, err, m, want))
			}
			if deleted {
				delete(model, k)
				r.Hit("probe.delete-ok")
			}
		case "par":
			if v := runPar(s, store, h, model, &uidN, r, mk); v != nil {
				return v
			}
		case "burst":
			// a writer that outruns the publisher: it runs as a task and blocks when the queue is full; the
			// scheduler publishes one batch whenever the writer cannot go on
			type bw struct {
				k    string
				m    *mres
				fail string
			}
			start := map[string]*mres{}
			for _, n := range names {
				if m := model[key(n, "default")]; m != nil {
					cp := *m
					start[n] = &cp
				}
			}
			base := uidN
			uidN += len(names)
			done := make(chan []bw, 1)
			go func() {
				var out []bw
				cur := start
				for j := 0; j < s.N; j++ {
					n := names[j%len(names)]
					uid, vsn := fmt.Sprintf("uid-%d", base+1+j%len(names)), ""
					if m := cur[n]; m != nil {
						uid, vsn = m.uid, m.version
					}
					data := fmt.Sprintf("b%d", j)
					got, err := b.WriteCAS(ctx, &pbresource.Resource{Id: rid(n, "default", uid), Version: vsn, Data: mustAny(data)})
					if err != nil {
						out = append(out, bw{fail: fmt.Sprintf("write %d of the burst (%s, presenting %q): %v", j, n, vsn, err)})
						break
					}
					cur[n] = &mres{uid: uid, version: got.Version, data: data}
					out = append(out, bw{k: key(n, "default"), m: cur[n]})
				}
				done <- out
			}()
			var res []bw
			for res == nil {
				synctest.Wait()
				select {
				case res = <-done:
				default:
					if !store.VerifDrainOne() {
						return mk("not-linearizable", "burst-writer-makes-progress", "the writer of a burst is blocked although nothing waits to be published")
					}
					r.Hit("probe.writer-waited-for-the-publisher")
				}
			}
			for _, x := range res {
				if x.fail != "" {
					return mk("not-linearizable", "write-cas-verdict-equals-model", x.fail)
				}
				model[x.k] = x.m
			}
			r.Hit("probe.bursts")
			r.Sig("burst")
			// room for the steps that write from the scheduler's own goroutine
			for store.VerifPending() > 40 {
				store.VerifDrainOne()
			}
		case "list":
			ten := tenancy(s.NS)
			if s.NS == "*" {
				ten = &pbresource.Tenancy{Partition: storage.Wildcard, Namespace: storage.Wildcard}
			}
			got, err := b.List(ctx, storage.EventualConsistency, storage.UnversionedTypeFrom(resType), ten, s.Prefix)
			if err != nil {
				return mk("not-linearizable", "list-succeeds", err.Error())
			}
			var have, want []string
			for _, g := range got {
				have = append(have, key(g.Id.Name, g.Id.Tenancy.Namespace)+"@"+g.Version)
			}
			for mk2, m := range model {
				parts := strings.SplitN(mk2, "/", 2)
				if (s.NS == "*" || parts[0] == s.NS) && strings.HasPrefix(parts[1], s.Prefix) {
					want = append(want, mk2+"@"+m.version)
				}
			}
			sort.Strings(have)
			sort.Strings(want)
			if strings.Join(have, ",") != strings.Join(want, ",") {
				return mk("not-linearizable", "list-equals-model", fmt.Sprintf("list ns=%s prefix=%q: store %v model %v", s.NS, s.Prefix, have, want))
			}
		case "listowner":
			for _, ns := range nss {
				o := model[key(s.Name, ns)]
				if o == nil {
					continue
				}
				got, err := b.ListByOwner(ctx, rid(s.Name, ns, o.uid))
				if err != nil {
					return mk("not-linearizable", "list-by-owner-succeeds", err.Error())
				}
				var have, want []string
				for _, g := range got {
					have = append(have, key(g.Id.Name, g.Id.Tenancy.Namespace))
				}
				for mk2, m := range model {
					if m.owner == s.Name+"#"+o.uid && strings.HasPrefix(mk2, ns+"/") {
						want = append(want, mk2)
					}
				}
				sort.Strings(have)
				sort.Strings(want)
				if strings.Join(have, ",") != strings.Join(want, ",") {
					return mk("not-linearizable", "list-by-owner-equals-model", fmt.Sprintf("owner %s/%s: store %v model %v", ns, s.Name, have, want))
				}
			}
		case "watch":
			w := watchers[s.W]
			if w != nil && w.w != nil {
				break
			}
			ten := tenancy(s.NS)
			if s.Wild {
				ten = &pbresource.Tenancy{Partition: storage.Wildcard, Namespace: storage.Wildcard}
			}
			if store.VerifPending() > 0 {
				r.Hit("probe.watch-started-in-commit-publish-gap")
			}
			sw, err := b.WatchList(ctx, storage.UnversionedTypeFrom(resType), ten, s.Prefix)
			if err != nil {
				return mk("watch-order", "watch-list-succeeds", err.Error())
			}
			watchers[s.W] = &watcher{id: s.W, w: sw, wild: s.Wild, ns: s.NS, prefix: s.Prefix, view: map[string]*mres{}, lastVsn: map[string]uint64{}}
			r.Sig("watch")
		case "wnext":
			w := watchers[s.W]
			if w == nil || w.w == nil || w.pending != nil {
				break
			}
			ch := make(chan wres, 1)
			w.pending = ch
			sw := w.w
			go func() { ev, err := sw.Next(ctx); ch <- wres{ev, err} }()
		case "wclose":
			if len(zombies) > 0 {
				zombies[0].Close()
				zombies = zombies[1:]
			}
			if w := watchers[s.W]; w != nil && w.w != nil {
				w.w.Close()
				if s.Twice {
					w.w.Close()
					r.Hit("probe.watch-closed-twice")
				}
				synctest.Wait()
				if w.pending != nil {
					select {
					case <-w.pending:
					default:
					}
					w.pending = nil
				}
				w.w = nil
			}
		case "drain":
			for j := 0; j < s.N; j++ {
				if store.VerifDrainOne() {
					r.Hit("probe.batch-published")
				}
			}
		case "snapshot":
			snap, err := b.Snapshot()
			if err != nil {
				return mk("not-linearizable", "snapshot-succeeds", err.Error())
			}
			snapBytes = nil
			for {
				rec, err := snap.Next()
				if err != nil {
					return mk("not-linearizable", "snapshot-succeeds", err.Error())
				}
				if rec == nil {
					break
				}
				snapBytes = append(snapBytes, rec)
			}
			snapModel = map[string]*mres{}
			for mk2, m := range model {
				cp := *m
				snapModel[mk2] = &cp
			}
			haveSnap = true
			r.Hit("probe.snapshot")
		case "restore":
			if !haveSnap {
				break
			}
			for store.VerifPending() > 40 {
				store.VerifDrainOne()
			}
			rest, err := b.Restore()
			if err != nil {
				return mk("not-linearizable", "restore-succeeds", err.Error())
			}
			for _, rec := range snapBytes {
				if err := rest.Apply(rec); err != nil {
					return mk("not-linearizable", "restore-succeeds", err.Error())
				}
			}
			rest.Commit()
			model = map[string]*mres{}
			for mk2, m := range snapModel {
				cp := *m
				model[mk2] = &cp
			}
			r.Hit("probe.restore")
			r.Sig("restore")
			// every watch must end with ErrWatchClosed (events the watch had already buffered may come first)
			ids := make([]int, 0, len(watchers))
			for id := range watchers {
				ids = append(ids, id)
			}
			sort.Ints(ids)
			for _, id := range ids {
				w := watchers[id]
				if w.w == nil {
					continue
				}
				closed := false
				for tries := 0; tries < 64 && !closed; tries++ {
					if w.pending == nil {
						ch := make(chan wres, 1)
						w.pending = ch
						sw := w.w
						go func() { ev, err := sw.Next(ctx); ch <- wres{ev, err} }()
					}
					synctest.Wait()
					select {
					case res := <-w.pending:
						w.pending = nil
						if res.err == nil {
							continue // an event buffered before the restore
						}
						if !errors.Is(res.err, storage.ErrWatchClosed) {
							return mk("watch-order", "restore-closes-watches", fmt.Sprintf("watch %d ended with %v after a restore", w.id, res.err))
						}
						closed = true
					default:
						return mk("watch-order", "restore-closes-watches", fmt.Sprintf("watch %d is still blocked after a restore", w.id))
					}
				}
				if !closed {
					return mk("watch-order", "restore-closes-watches", fmt.Sprintf("watch %d keeps delivering events after a restore", w.id))
				}
				if s.Lazy {
					// the owner has seen ErrWatchClosed but has not called Close yet
					zombies = append(zombies, w.w)
					r.Hit("probe.closed-watch-kept-open-by-its-owner")
				} else {
					w.w.Close()
				}
				w.w = nil
				r.Hit("probe.watch-closed-by-restore")
			}
			// clients forget what they read (versions of the old timeline)
			clients = map[int]map[string]seen{}
		}
		if store.VerifPending() > 48 {
			store.VerifDrainOne()
		}
		collect()
		if viol != nil {
			return viol
		}
	}
	// quiescence: publish and consume everything; each live watch's view equals the matching part of the model
	cur, curStep = len(p.Steps), Step{Op: "quiesce"}
	quiet := false
	for round := 0; round < 20000; round++ {
		progressed := store.VerifDrainOne()
		for _, w := range watchers {
			if w.w != nil && w.pending == nil {
				ch := make(chan wres, 1)
				w.pending = ch
				sw := w.w
				go func() { ev, err := sw.Next(ctx); ch <- wres{ev, err} }()
				progressed = true
			}
		}
		before := r.Counters["probe.watch-event"]
		collect()
		if viol != nil {
			return viol
		}
		if r.Counters["probe.watch-event"] != before {
			progressed = true
		}
		if !progressed && store.VerifPending() == 0 {
			quiet = true
			break
		}
	}
	if !quiet {
		panic("quiescence not reached within the round limit: the comparison below would judge a backlog, not the store")
	}
	ids := make([]int, 0, len(watchers))
	for id := range watchers {
		ids = append(ids, id)
	}
	sort.Ints(ids)
	for _, id := range ids {
		w := watchers[id]
		if w.w == nil || !w.snap {
			continue
		}
		var have, want []string
		for k2, m := range w.view {
			have = append(have, k2+"@"+m.version+"#"+m.uid)
		}
		for k2, m := range model {
			parts := strings.SplitN(k2, "/", 2)
			if w.matches(parts[1], parts[0]) {
				want = append(want, k2+"@"+m.version+"#"+m.uid)
			}
		}
		sort.Strings(have)
		sort.Strings(want)
		if strings.Join(have, ",") != strings.Join(want, ",") {
			return mk("watch-order", "caught-up-watch-equals-store", fmt.Sprintf("watch %d (wild=%v ns=%s prefix=%q), everything published and consumed: view %v, store %v", w.id, w.wild, w.ns, w.prefix, have, want))
		}
		r.Hit("probe.quiescent-watch-checked")
	}
	r.Nontrivial = r.Counters["probe.write-ok"] >= 2
	return nil
}

func sameErr(got, want error) bool {
	if want == nil {
		return got == nil
	}
	return errors.Is(got, want)
}

func errClass(err error) string {
	switch {
	case errors.Is(err, storage.ErrCASFailure):
		return "cas"
	case errors.Is(err, storage.ErrWrongUid):
		return "wrong-uid"
	}
	return "other"
}

func mustAny(s string) *anypb.Any {
	a, err := anypb.New(wrapperspb.String(s))
	if err != nil {
		panic(err)
	}
	return a
}

func dataOf(r *pbresource.Resource) string {
	if r.Data == nil {
		return ""
	}
	var w wrapperspb.StringValue
	if err := r.Data.UnmarshalTo(&w); err != nil {
		return "?"
	}
	return w.Value
}

var _ = inmem.NewStore

// handleAdapter completes the raft Handle interface (DialLeader is only used by non-leaders).
type handleAdapter struct{ *handle }

func (handleAdapter) DialLeader() (*grpc.ClientConn, error) {
	return nil, errors.New("simulated leader does not dial itself")
}

// ---- concurrent operations under a decided schedule

type parTask struct {
	s                Step
	k                string
	uid, vsn, newVsn string
	err              error
	done, lockWait   bool
	resume           chan struct{}
	state            chan string
}

// refApply is the sequential reference of one store operation on a copy of the model.
func refApply(model map[string]*mres, t *parTask) error {
	m := model[t.k]
	if t.s.Op == "write" {
		switch {
		case m == nil && t.vsn != "":
			return storage.ErrCASFailure
		case m != nil && m.uid != t.uid:
			return storage.ErrWrongUid
		case m != nil && m.version != t.vsn:
			return storage.ErrCASFailure
		}
		model[t.k] = &mres{uid: t.uid, version: t.newVsn, data: t.s.Data}
		return nil
	}
	switch {
	case m == nil || m.uid != t.uid:
		return nil
	case m.version != t.vsn:
		return storage.ErrCASFailure
	}
	delete(model, t.k)
	return nil
}

func permutations(n int) [][]int {
	if n == 1 {
		return [][]int{{0}}
	}
	var out [][]int
	for _, p := range permutations(n - 1) {
		for i := 0; i <= len(p); i++ {
			q := append(append(append([]int{}, p[:i]...), n-1), p[i:]...)
			out = append(out, q)
		}
	}
	return out
}

// runPar runs the operations of one par step as goroutines that only move when the schedule says so,
// then requires the outcome (verdicts and stored state) to equal that of some sequential order.
func runPar(s Step, store *inmem.Store, h *handle, model map[string]*mres, uidN *int, r *simkit.Run, mk func(class, inv, detail string) *simkit.Violation) *simkit.Violation {
	var tasks []*parTask
	for _, ps := range s.Par {
		t := &parTask{s: ps, k: key(ps.Name, ps.NS), resume: make(chan struct{}), state: make(chan string)}
		h.next++
		t.newVsn = strconv.Itoa(int(h.next))
		if m := model[t.k]; m != nil {
			t.uid, t.vsn = m.uid, m.version
		}
		switch ps.Vsn {
		case "empty":
			t.vsn = ""
		case "stale":
			t.vsn = "3"
		case "peer":
			// presents the version an earlier operation of this step is about to write
			for _, o := range tasks {
				if o.s.Op == "write" && o.k == t.k {
					t.vsn, t.uid = o.newVsn, o.uid
				}
			}
		}
		if ps.Op == "write" && (ps.UID == "new" || t.uid == "") {
			*uidN++
			t.uid = fmt.Sprintf("uid-%d", *uidN)
		}
		tasks = append(tasks, t)
	}
	if len(tasks) == 0 {
		return nil
	}
	var current *parTask
	inmem.VerifYield = func(point string) {
		t := current
		t.state <- point
		<-t.resume
	}
	defer func() { inmem.VerifYield = nil }()
	for _, t := range tasks {
		t := t
		go func() {
			<-t.resume
			if t.s.Op == "write" {
				res := &pbresource.Resource{Id: rid(t.s.Name, t.s.NS, t.uid), Version: t.newVsn, Data: mustAny(t.s.Data)}
				t.err = store.WriteCAS(res, t.vsn)
			} else {
				t.err = store.DeleteCAS(rid(t.s.Name, t.s.NS, t.uid), t.vsn)
			}
			t.state <- "done"
		}()
	}
	var trace []string
	for step := 0; ; step++ {
		var cand []int
		for i, t := range tasks {
			if !t.done && !t.lockWait {
				cand = append(cand, i)
			}
		}
		if len(cand) == 0 {
			// only lock waiters are left: they may try again
			for i, t := range tasks {
				if !t.done {
					cand = append(cand, i)
				}
			}
			if len(cand) == 0 {
				break
			}
			if step > 200 {
				return mk("not-linearizable", "concurrent-operations-finish", fmt.Sprintf("operations wait for the event lock for ever; schedule %v", trace))
			}
		}
		pick := cand[0]
		if len(s.Sched) > 0 {
			pick = cand[s.Sched[step%len(s.Sched)]%len(cand)]
		}
		t := tasks[pick]
		current = t
		t.resume <- struct{}{}
		st := <-t.state
		trace = append(trace, fmt.Sprintf("%d:%s", pick, st))
		switch st {
		case "done":
			t.done = true
			// whoever waited for the lock may find it free now
			for _, o := range tasks {
				o.lockWait = false
			}
		case "lock-wait":
			t.lockWait = true
			r.Hit("probe.par-waited-for-event-lock")
		case "committed":
			r.Hit("probe.par-parked-between-commit-and-publish")
		}
	}
	r.Eventf("par %v", trace)
	r.Sig("par:" + strings.Join(trace, ","))
	r.Hit("probe.par-steps")
	// some sequential order must explain verdicts and stored state
	keys := map[string]bool{}
	for _, t := range tasks {
		keys[t.k] = true
	}
	stored := func(k string) string {
		parts := strings.SplitN(k, "/", 2)
		got, err := store.Read(rid(parts[1], parts[0], ""))
		if err != nil {
			return "-"
		}
		return got.Id.Uid + "@" + got.Version + ":" + dataOf(got)
	}
	var verdicts []string
	for i, t := range tasks {
		verdicts = append(verdicts, fmt.Sprintf("%d:%s %s uid=%s presents=%q -> %v", i, t.s.Op, t.k, t.uid, t.vsn, t.err))
	}
	for _, order := range permutations(len(tasks)) {
		cp := map[string]*mres{}
		for k, m := range model {
			c := *m
			cp[k] = &c
		}
		ok := true
		for _, i := range order {
			if !sameErr(tasks[i].err, refApply(cp, tasks[i])) {
				ok = false
				break
			}
		}
		for k := range keys {
			want := "-"
			if m := cp[k]; m != nil {
				want = m.uid + "@" + m.version + ":" + m.data
			}
			if ok && stored(k) != want {
				ok = false
			}
		}
		if ok {
			for k := range keys {
				if m := cp[k]; m != nil {
					model[k] = m
				} else {
					delete(model, k)
				}
			}
			return nil
		}
	}
	var st []string
	for _, k := range simkit.SortedKeys(keys) {
		st = append(st, k+"="+stored(k))
	}
	return mk("not-linearizable", "concurrent-outcome-equals-some-sequential-order",
		fmt.Sprintf("schedule %v\n  verdicts %v\n  stored %v\n  no order of the operations gives these verdicts and this state", trace, verdicts, st))
}
