//go:build verif

// Package archiveworld (W9) decides C20: the snapshot archive written by the
// real snapshot.write is passed through a faulty medium (byte flips,
// truncation, tar member surgery, checksum-list surgery; plain and
// gzip-wrapped) and read back with the real snapshot.read / Verify / Read.
package archiveworld

import (
	"archive/tar"
	"bytes"
	"compress/gzip"
	"encoding/json"
	"fmt"
	"io"
	"math/rand/v2"
	"os"
	"reflect"
	"strings"
	"testing"

	"github.com/hashicorp/go-hclog"
	"github.com/hashicorp/raft"

	"github.com/hashicorp/consul/internal/verifsim/simkit"
	"github.com/hashicorp/consul/snapshot"
)

type Fault struct {
	Kind string `json:"kind"` // flip trunc gzflip gztrunc rm dup swap rename inject sumrm sumdup sumswap gzappend gzmember
	Off  int    `json:"off,omitempty"`
	Mask int    `json:"mask,omitempty"`
	A    int    `json:"a,omitempty"`
	B    int    `json:"b,omitempty"`
	Name string `json:"name,omitempty"`
	Type string `json:"type,omitempty"` // inject: tar member type ("" regular, dir, symlink, link, fifo, char)
}

type Plan struct {
	PayloadSeed uint64  `json:"payload_seed"`
	PayloadSize int     `json:"payload_size"`
	PayloadKind string  `json:"payload_kind"` // random zero text
	Index       uint64  `json:"index"`
	Term        uint64  `json:"term"`
	Servers     int     `json:"servers"`
	SumsOrder   int     `json:"sums_order"` // which member the first SHA256SUMS line names (the writer ranges over a map)
	ID          string  `json:"id"`
	Enumerate   bool    `json:"enumerate"` // enumerate every position (fault_enumeration tier)
	Stride      int     `json:"stride,omitempty"`
	Faults      []Fault `json:"faults"`
}

func (p *Plan) NumSteps() int { return len(p.Faults) }
func (p *Plan) Keep(keep []bool) simkit.Plan {
	q := *p
	q.Faults = nil
	for i, f := range p.Faults {
		if keep[i] {
			q.Faults = append(q.Faults, f)
		}
	}
	return &q
}
func (p *Plan) Simplify() []simkit.Plan {
	var out []simkit.Plan
	if p.Enumerate {
		return nil
	}
	if p.Servers > 0 {
		q := *p
		q.Servers = 0
		out = append(out, &q)
	}
	return out
}

type World struct{}

func (World) Decode(raw []byte) (simkit.Plan, error) {
	var p Plan
	if err := json.Unmarshal(raw, &p); err != nil {
		return nil, err
	}
	return &p, nil
}

var sizes = []int{0, 1, 2, 100, 511, 512, 513, 1023, 1024, 1025}

func (World) Generate(rng *rand.Rand, tier string, runIdx uint64) simkit.Plan {
	p := &Plan{PayloadSeed: rng.Uint64(), Enumerate: true}
	if simkit.Chance(rng, 60) {
		p.PayloadSize = simkit.Pick(rng, sizes)
	} else {
		p.PayloadSize = rng.IntN(3000)
	}
	p.PayloadKind = simkit.Pick(rng, []string{"random", "random", "zero", "text"})
	p.Index = uint64(rng.IntN(1 << 20))
	if simkit.Chance(rng, 10) {
		p.Index = ^uint64(0) - uint64(rng.IntN(3))
	}
	p.Term = uint64(rng.IntN(50))
	p.Servers = rng.IntN(4)
	p.ID = fmt.Sprintf("%d-%d-%d", p.Term, p.Index, rng.IntN(1<<30))
	p.Stride = 1
	p.SumsOrder = rng.IntN(2)
	if simkit.Chance(rng, 12) {
		// a large cluster: the metadata member is several KiB, not a few hundred bytes
		p.Servers = 40 + rng.IntN(120)
	}
	return p
}

// Narrow turns an enumerating plan into an explicit single-fault plan.
func (World) Narrow(pl simkit.Plan, v *simkit.Violation) simkit.Plan {
	p := pl.(*Plan)
	if !p.Enumerate || v.Culprit == "" {
		return p
	}
	var f Fault
	if json.Unmarshal([]byte(v.Culprit), &f) != nil {
		return p
	}
	q := *p
	q.Enumerate = false
	q.Faults = []Fault{f}
	return &q
}

func payload(p *Plan) []byte {
	b := make([]byte, p.PayloadSize)
	switch p.PayloadKind {
	case "zero":
	case "text":
		rng := simkit.NewRNG(p.PayloadSeed)
		for i := range b {
			b[i] = "abcdefghij \n0123456789"[rng.IntN(22)]
		}
	default:
		rng := simkit.NewRNG(p.PayloadSeed)
		for i := range b {
			b[i] = byte(rng.Uint32())
		}
	}
	return b
}

func meta(p *Plan) *raft.SnapshotMeta {
	m := &raft.SnapshotMeta{Version: raft.SnapshotVersionMax, ID: p.ID, Index: p.Index, Term: p.Term,
		ConfigurationIndex: p.Index / 2, Size: int64(p.PayloadSize)}
	for i := 0; i < p.Servers; i++ {
		m.Configuration.Servers = append(m.Configuration.Servers, raft.Server{
			Suffrage: raft.ServerSuffrage(i % 2), ID: raft.ServerID(serverID(p, i)),
			Address: raft.ServerAddress(fmt.Sprintf("10.0.0.%d:8300", i+1))})
	}
	return m
}

func serverID(p *Plan, i int) string {
	if p.Servers > 8 {
		return fmt.Sprintf("%08x-1111-4222-8333-%012x", i, i*7919) // node ids are UUIDs
	}
	return fmt.Sprintf("srv-%d", i)
}

// region of a byte position in the clean tar, by our own walk
var tarTypes = map[string]byte{"dir": tar.TypeDir, "symlink": tar.TypeSymlink, "link": tar.TypeLink, "fifo": tar.TypeFifo, "char": tar.TypeChar}

type member struct {
	name            string
	hdrOff, dataOff int
	size, paddedEnd int
	typ             string
}

func walkTar(b []byte) ([]member, int, error) {
	var ms []member
	off := 0
	for off+512 <= len(b) {
		blk := b[off : off+512]
		if bytes.Equal(blk, make([]byte, 512)) {
			return ms, off, nil
		}
		name := strings.TrimRight(string(blk[0:100]), "\x00")
		var size int
		if _, err := fmt.Sscanf(strings.Trim(string(blk[124:136]), "\x00 "), "%o", &size); err != nil {
			return nil, 0, fmt.Errorf("bad size field at %d", off)
		}
		m := member{name: name, hdrOff: off, dataOff: off + 512, size: size}
		m.paddedEnd = m.dataOff + (size+511)/512*512
		ms = append(ms, m)
		off = m.paddedEnd
	}
	return ms, off, nil
}

func classify(ms []member, trailer int, pos int) string {
	for _, m := range ms {
		switch {
		case pos >= m.hdrOff && pos < m.dataOff:
			return "header:" + m.name
		case pos >= m.dataOff && pos < m.dataOff+m.size:
			return "payload:" + m.name
		case pos >= m.dataOff+m.size && pos < m.paddedEnd:
			return "padding:" + m.name
		}
	}
	return "trailer"
}

type archive struct {
	plain   []byte
	gz      []byte
	state   []byte
	meta    *raft.SnapshotMeta
	members []member
	trailer int
}

func gzipOf(b []byte) []byte {
	var buf bytes.Buffer
	zw := gzip.NewWriter(&buf)
	zw.Write(b)
	zw.Close()
	return buf.Bytes()
}

func rebuildTar(ms []member, src []byte, order []int, rename map[int]string, inject *member, injectData []byte) []byte {
	var out bytes.Buffer
	tw := tar.NewWriter(&out)
	tr := func(i int) {
		m := ms[i]
		name := m.name
		if n, ok := rename[i]; ok {
			name = n
		}
		tw.WriteHeader(&tar.Header{Name: name, Mode: 0600, Size: int64(m.size)})
		tw.Write(src[m.dataOff : m.dataOff+m.size])
	}
	for _, i := range order {
		if i < 0 {
			if tf, ok := tarTypes[inject.typ]; ok {
				// a member that is not a regular file carries no data
				h := &tar.Header{Name: inject.name, Mode: 0600, Typeflag: tf}
				if tf == tar.TypeSymlink || tf == tar.TypeLink {
					h.Linkname = "state.bin"
				}
				if err := tw.WriteHeader(h); err != nil {
					panic(err)
				}
				continue
			}
			tw.WriteHeader(&tar.Header{Name: inject.name, Mode: 0600, Size: int64(len(injectData))})
			tw.Write(injectData)
			continue
		}
		tr(i)
	}
	tw.Close()
	return out.Bytes()
}

// replaceSums rebuilds the tar with a modified SHA256SUMS payload.
func replaceSums(a *archive, f func(lines []string) []string) []byte {
	var out bytes.Buffer
	tw := tar.NewWriter(&out)
	for _, m := range a.members {
		data := a.plain[m.dataOff : m.dataOff+m.size]
		if m.name == "SHA256SUMS" {
			lines := strings.Split(strings.TrimRight(string(data), "\n"), "\n")
			lines = f(lines)
			s := strings.Join(lines, "\n")
			if len(lines) > 0 {
				s += "\n"
			}
			data = []byte(s)
		}
		tw.WriteHeader(&tar.Header{Name: m.name, Mode: 0600, Size: int64(len(data))})
		tw.Write(data)
	}
	tw.Close()
	return out.Bytes()
}

type verdict struct {
	mustReject bool   // property demands rejection
	region     string // for stats
	gz         bool
	data       []byte
}

func (a *archive) apply(f Fault) (verdict, bool) {
	switch f.Kind {
	case "flip":
		if f.Off < 0 || f.Off >= len(a.plain) || f.Mask&0xff == 0 {
			return verdict{}, false
		}
		d := bytes.Clone(a.plain)
		d[f.Off] ^= byte(f.Mask)
		reg := classify(a.members, a.trailer, f.Off)
		must := reg == "payload:meta.json" || reg == "payload:state.bin"
		return verdict{mustReject: must, region: strings.SplitN(reg, ":", 2)[0], data: d}, true
	case "trunc":
		if f.Off < 0 || f.Off >= len(a.plain) {
			return verdict{}, false
		}
		last := a.members[len(a.members)-1]
		must := f.Off < last.dataOff+last.size
		return verdict{mustReject: must, region: "trunc", data: bytes.Clone(a.plain[:f.Off])}, true
	case "gzflip":
		if f.Off < 0 || f.Off >= len(a.gz) || f.Mask&0xff == 0 {
			return verdict{}, false
		}
		d := bytes.Clone(a.gz)
		d[f.Off] ^= byte(f.Mask)
		return verdict{region: "gzflip", gz: true, data: d}, true
	case "gztrunc":
		if f.Off < 0 || f.Off >= len(a.gz) {
			return verdict{}, false
		}
		return verdict{region: "gztrunc", gz: true, data: bytes.Clone(a.gz[:f.Off])}, true
	case "gzappend":
		// extra uncompressed bytes after the tar end-of-archive marker, inside the gzip stream
		d := append(bytes.Clone(a.plain), bytes.Repeat([]byte{byte(f.Mask | 1)}, f.A+1)...)
		return verdict{region: "gzappend", gz: true, data: gzipOf(d)}, true
	case "gzmember":
		// a second gzip member after the valid one: it carries an unexpected tar member, a second
		// copy of a known member, or a second whole archive
		var extra []byte
		switch f.A {
		case 0:
			extra = gzipOf(rebuildTar(a.members, a.plain, []int{-1}, nil, &member{name: f.Name}, []byte("x")))
		case 1:
			extra = gzipOf(rebuildTar(a.members, a.plain, []int{1}, nil, nil, nil))
		default:
			extra = a.gz
		}
		return verdict{mustReject: true, region: "gzmember", gz: true, data: append(bytes.Clone(a.gz), extra...)}, true
	case "rm":
		if f.A < 0 || f.A >= len(a.members) {
			return verdict{}, false
		}
		var order []int
		for i := range a.members {
			if i != f.A {
				order = append(order, i)
			}
		}
		return verdict{mustReject: true, region: "member-rm", gz: f.B == 1, data: maybeGz(f.B == 1, rebuildTar(a.members, a.plain, order, nil, nil, nil))}, true
	case "dup":
		if f.A < 0 || f.A >= len(a.members) {
			return verdict{}, false
		}
		order := []int{0, 1, 2, f.A}
		return verdict{region: "member-dup", gz: f.B == 1, data: maybeGz(f.B == 1, rebuildTar(a.members, a.plain, order, nil, nil, nil))}, true
	case "swap":
		perms := [][]int{{0, 2, 1}, {1, 0, 2}, {1, 2, 0}, {2, 0, 1}, {2, 1, 0}}
		if f.A < 0 || f.A >= len(perms) || len(a.members) != 3 {
			return verdict{}, false
		}
		return verdict{region: "member-reorder", gz: f.B == 1, data: maybeGz(f.B == 1, rebuildTar(a.members, a.plain, perms[f.A], nil, nil, nil))}, true
	case "rename":
		if f.A < 0 || f.A >= len(a.members) || f.Name == "" || f.Name == a.members[f.A].name {
			return verdict{}, false
		}
		return verdict{mustReject: true, region: "member-rename", gz: f.B == 1, data: maybeGz(f.B == 1, rebuildTar(a.members, a.plain, []int{0, 1, 2}, map[int]string{f.A: f.Name}, nil, nil))}, true
	case "inject":
		if f.A < 0 || f.A > 3 || f.Name == "" {
			return verdict{}, false
		}
		for _, m := range a.members {
			if m.name == f.Name {
				return verdict{}, false
			}
		}
		order := []int{0, 1, 2}
		order = append(order[:f.A], append([]int{-1}, order[f.A:]...)...)
		return verdict{mustReject: true, region: "member-inject", gz: f.B == 1, data: maybeGz(f.B == 1, rebuildTar(a.members, a.plain, order, nil, &member{name: f.Name, typ: f.Type}, []byte("x")))}, true
	case "sumrm":
		d := replaceSums(a, func(l []string) []string {
			if f.A < 0 || f.A >= len(l) {
				return l
			}
			return append(append([]string{}, l[:f.A]...), l[f.A+1:]...)
		})
		return verdict{mustReject: true, region: "sums-rm", gz: f.B == 1, data: maybeGz(f.B == 1, d)}, true
	case "sumdup":
		d := replaceSums(a, func(l []string) []string {
			if f.A < 0 || f.A >= len(l) {
				return l
			}
			return append(append([]string{}, l...), l[f.A])
		})
		return verdict{region: "sums-dup", gz: f.B == 1, data: maybeGz(f.B == 1, d)}, true
	case "sumswap":
		d := replaceSums(a, func(l []string) []string {
			if len(l) < 2 {
				return l
			}
			return []string{l[1], l[0]}
		})
		return verdict{region: "sums-reorder", gz: f.B == 1, data: maybeGz(f.B == 1, d)}, true
	case "sumcross":
		// swap the two digests between the two file names: both lines present, both wrong
		d := replaceSums(a, func(l []string) []string {
			if len(l) < 2 {
				return l
			}
			x, y := strings.SplitN(l[0], "  ", 2), strings.SplitN(l[1], "  ", 2)
			if len(x) != 2 || len(y) != 2 || x[0] == y[0] {
				return l
			}
			return []string{y[0] + "  " + x[1], x[0] + "  " + y[1]}
		})
		return verdict{mustReject: true, region: "sums-cross", gz: f.B == 1, data: maybeGz(f.B == 1, d)}, true
	}
	return verdict{}, false
}

func maybeGz(gz bool, b []byte) []byte {
	if gz {
		return gzipOf(b)
	}
	return b
}

func (w World) Execute(t *testing.T, pl simkit.Plan, r *simkit.Run) (v *simkit.Violation) {
	// inside a bubble so that the tar ModTime written by snapshot.write is the fake clock's
	if err := simkit.Bubble(t, func() { v = w.execute(pl, r) }); err != nil {
		return &simkit.Violation{Class: "harness-panic", Invariant: "no-escaped-panic", Detail: err.Error()}
	}
	return v
}

func (World) execute(pl simkit.Plan, r *simkit.Run) *simkit.Violation {
	p := pl.(*Plan)
	a := &archive{state: payload(p), meta: meta(p)}
	// snapshot.write emits the SHA256SUMS lines in Go map order; write until the
	// order the plan asks for comes up so that byte offsets replay exactly.
	want := []string{"meta.json", "state.bin"}[p.SumsOrder&1]
	for try := 0; ; try++ {
		var buf bytes.Buffer
		if err := snapshot.VerifWrite(&buf, a.meta, bytes.NewReader(a.state)); err != nil {
			return &simkit.Violation{Class: "roundtrip-mismatch", Invariant: "write-succeeds", Detail: err.Error()}
		}
		a.plain = buf.Bytes()
		if ms, _, err := walkTar(a.plain); err == nil && len(ms) == 3 {
			first := strings.SplitN(string(a.plain[ms[2].dataOff:ms[2].dataOff+ms[2].size]), "\n", 2)[0]
			if strings.HasSuffix(first, want) || try > 200 {
				break
			}
		} else {
			break
		}
	}
	a.gz = gzipOf(a.plain)
	var err error
	a.members, a.trailer, err = walkTar(a.plain)
	if err != nil || len(a.members) != 3 {
		return &simkit.Violation{Class: "roundtrip-mismatch", Invariant: "archive-has-three-members",
			Detail: fmt.Sprintf("own tar walk: %v members=%d", err, len(a.members))}
	}
	r.Eventf("archive plain=%d gz=%d payload=%d", len(a.plain), len(a.gz), len(a.state))
	r.Sig(fmt.Sprintf("size-class:%d/%s/%d", p.PayloadSize, p.PayloadKind, p.Servers))

	// clean round trip, all three read paths
	if v := a.check(r, Fault{Kind: "clean"}, verdict{region: "clean", data: a.plain}, true); v != nil {
		return v
	}
	if v := a.check(r, Fault{Kind: "clean-gz"}, verdict{region: "clean", gz: true, data: a.gz}, true); v != nil {
		return v
	}
	run := func(f Fault) *simkit.Violation {
		vd, ok := a.apply(f)
		if !ok {
			return nil
		}
		r.Steps++
		return a.check(r, f, vd, false)
	}
	if !p.Enumerate {
		for _, f := range p.Faults {
			if v := run(f); v != nil {
				return v
			}
		}
		r.Nontrivial = len(p.Faults) > 0
		return nil
	}
	r.Nontrivial = true
	stride := p.Stride
	if stride < 1 {
		stride = 1
	}
	masks := []int{0x01, 0x20, 0x80, 0xff}
	for off := 0; off < len(a.plain); off += stride {
		for _, m := range masks {
			if v := run(Fault{Kind: "flip", Off: off, Mask: m}); v != nil {
				return v
			}
		}
	}
	for l := 0; l < len(a.plain); l += stride {
		if v := run(Fault{Kind: "trunc", Off: l}); v != nil {
			return v
		}
	}
	for off := 0; off < len(a.gz); off += stride {
		for _, m := range masks[:3] {
			if v := run(Fault{Kind: "gzflip", Off: off, Mask: m}); v != nil {
				return v
			}
		}
		if v := run(Fault{Kind: "gztrunc", Off: off}); v != nil {
			return v
		}
	}
	for gz := 0; gz < 2; gz++ {
		for i := 0; i < 3; i++ {
			for _, k := range []string{"rm", "dup"} {
				if v := run(Fault{Kind: k, A: i, B: gz}); v != nil {
					return v
				}
			}
			for _, n := range []string{"extra", "META.JSON", "state.bin ", "./state.bin", "SHA256SUMS.bak"} {
				if v := run(Fault{Kind: "rename", A: i, B: gz, Name: n}); v != nil {
					return v
				}
			}
		}
		for i := 0; i < 5; i++ {
			if v := run(Fault{Kind: "swap", A: i, B: gz}); v != nil {
				return v
			}
		}
		for i := 0; i <= 3; i++ {
			for _, n := range []string{"extra.txt", "meta.json.orig", "state.bin2"} {
				if v := run(Fault{Kind: "inject", A: i, B: gz, Name: n}); v != nil {
					return v
				}
				for _, ty := range []string{"dir", "symlink", "link", "fifo", "char"} {
					if v := run(Fault{Kind: "inject", A: i, B: gz, Name: n, Type: ty}); v != nil {
						return v
					}
				}
			}
		}
		for i := 0; i < 2; i++ {
			if v := run(Fault{Kind: "sumrm", A: i, B: gz}); v != nil {
				return v
			}
			if v := run(Fault{Kind: "sumdup", A: i, B: gz}); v != nil {
				return v
			}
		}
		if v := run(Fault{Kind: "sumswap", B: gz}); v != nil {
			return v
		}
		if v := run(Fault{Kind: "sumcross", B: gz}); v != nil {
			return v
		}
	}
	for n := 0; n < 3; n++ {
		if v := run(Fault{Kind: "gzappend", A: n * 300, Mask: n}); v != nil {
			return v
		}
		if v := run(Fault{Kind: "gzmember", A: n, Name: "nope"}); v != nil {
			return v
		}
	}
	return nil
}

var nullLogger = hclog.NewNullLogger()

// check feeds the (possibly damaged) bytes to the real readers and applies the oracle.
func (a *archive) check(r *simkit.Run, f Fault, vd verdict, clean bool) *simkit.Violation {
	fj, _ := json.Marshal(f)
	mk := func(class, inv, detail string) *simkit.Violation {
		return &simkit.Violation{Class: class, Invariant: inv, Step: r.Steps, Culprit: string(fj), Detail: detail}
	}
	type res struct {
		path  string
		err   error
		state []byte
		meta  raft.SnapshotMeta
		hasSt bool
	}
	var results []res
	if !vd.gz {
		var m raft.SnapshotMeta
		var st bytes.Buffer
		err := snapshot.VerifRead(bytes.NewReader(vd.data), &m, &st)
		results = append(results, res{"read", err, st.Bytes(), m, true})
	} else {
		m, err := snapshot.Verify(bytes.NewReader(vd.data))
		rs := res{path: "Verify", err: err}
		if m != nil {
			rs.meta = *m
		}
		results = append(results, rs)
		// snapshot.Read goes through temp files: used for clean archives, for
		// every structural fault and for a deterministic sample of byte faults
		if clean || (f.Kind != "gzflip" && f.Kind != "gztrunc") || f.Off%64 == 0 {
			file, m2, err2 := snapshot.Read(nullLogger, bytes.NewReader(vd.data))
			if err2 != nil && strings.Contains(err2.Error(), "temp snapshot file") {
				panic("environment trouble, not a verdict: " + err2.Error())
			}
			if err2 != nil {
				cleanTemp() // snapshot.Read leaks its temp file when it fails
			}
			rs2 := res{path: "Read", err: err2, hasSt: true}
			if file != nil {
				rs2.state, _ = io.ReadAll(file)
				file.Close()
				os.Remove(file.Name())
			}
			if m2 != nil {
				rs2.meta = *m2
			}
			results = append(results, rs2)
			if (err == nil) != (err2 == nil) {
				return mk("corruption-accepted", "verify-and-read-agree", fmt.Sprintf("Verify err=%v, Read err=%v", err, err2))
			}
		}
	}
	for _, x := range results {
		accepted := x.err == nil
		r.Hit("fault." + vd.region)
		if accepted {
			r.Hit("accepted." + vd.region)
		} else {
			r.Hit("rejected." + vd.region)
		}
		if clean {
			if !accepted {
				return mk("roundtrip-mismatch", "clean-archive-reads", fmt.Sprintf("%s: %v", x.path, x.err))
			}
		}
		if accepted {
			if x.hasSt && !bytes.Equal(x.state, a.state) {
				cl := "corruption-accepted"
				if clean {
					cl = "roundtrip-mismatch"
				}
				return mk(cl, "extracted-state-identical", fmt.Sprintf("%s accepted archive (%s) but state differs: got %d bytes want %d", x.path, vd.region, len(x.state), len(a.state)))
			}
			if !reflect.DeepEqual(normMeta(x.meta), normMeta(*a.meta)) {
				cl := "corruption-accepted"
				if clean {
					cl = "roundtrip-mismatch"
				}
				return mk(cl, "extracted-metadata-equal", fmt.Sprintf("%s accepted archive (%s) but metadata differs: got %+v want %+v", x.path, vd.region, x.meta, *a.meta))
			}
			if vd.mustReject {
				return mk("corruption-accepted", "must-reject:"+vd.region, fmt.Sprintf("%s accepted an archive damaged by %s", x.path, fj))
			}
		}
	}
	r.Eventf("%s -> %v", fj, results[0].err == nil)
	return nil
}

func normMeta(m raft.SnapshotMeta) raft.SnapshotMeta {
	if len(m.Peers) == 0 {
		m.Peers = nil
	}
	if len(m.Configuration.Servers) == 0 {
		m.Configuration.Servers = nil
	}
	return m
}

func cleanTemp() {
	dir := os.TempDir()
	ents, err := os.ReadDir(dir)
	if err != nil {
		return
	}
	for _, e := range ents {
		if strings.HasPrefix(e.Name(), "snapshot") && !e.IsDir() {
			os.Remove(dir + "/" + e.Name())
		}
	}
}
