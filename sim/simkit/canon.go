//go:build verif

package simkit

import (
	"fmt"
	"reflect"
	"sort"
	"strconv"
	"strings"
	"time"

	"google.golang.org/protobuf/encoding/prototext"
	"google.golang.org/protobuf/proto"
)

// Canon renders any Go value as a deterministic string: pointers are followed
// (never printed as addresses), map keys are sorted, unexported fields are
// included, channels and funcs are skipped, protobuf messages use their
// deterministic text form, time.Time is printed as UTC nanoseconds (so that a
// wall-clock value leaking into replicated state shows up as a difference).
// Fields whose name appears in skip are replaced by "_".
func Canon(v any, skip ...string) string {
	var sb strings.Builder
	c := canoner{skip: map[string]bool{}}
	for _, s := range skip {
		c.skip[s] = true
	}
	c.enc(&sb, reflect.ValueOf(v), 0)
	return sb.String()
}

type canoner struct {
	skip map[string]bool
	// maskIdx: "Type.Field" names rendered as "_"
	maskIdx    map[string]bool
	sortSlices bool
}

// CanonMasked is Canon with the Raft indexes of the named struct types masked.
func CanonMasked(v any, maskIdxOfTypes map[string]bool) string {
	return CanonOpt(v, maskIdxOfTypes, false)
}

// CanonOpt: sortSlices renders every slice (other than []byte) as a sorted multiset, for
// results that are assembled by ranging over Go maps and promise no order.
func CanonOpt(v any, maskIdxOfTypes map[string]bool, sortSlices bool) string {
	var sb strings.Builder
	c := canoner{skip: map[string]bool{}, maskIdx: maskIdxOfTypes, sortSlices: sortSlices}
	c.enc(&sb, reflect.ValueOf(v), 0)
	return sb.String()
}

// CanonSkipSorted: every slice rendered as a sorted multiset and the named fields rendered as "_".
func CanonSkipSorted(v any, skip ...string) string {
	var sb strings.Builder
	c := canoner{skip: map[string]bool{}, sortSlices: true}
	for _, s := range skip {
		c.skip[s] = true
	}
	c.enc(&sb, reflect.ValueOf(v), 0)
	return sb.String()
}

var (
	timeType  = reflect.TypeOf(time.Time{})
	protoType = reflect.TypeOf((*proto.Message)(nil)).Elem()
	errType   = reflect.TypeOf((*error)(nil)).Elem()
)

func (c *canoner) enc(sb *strings.Builder, v reflect.Value, depth int) {
	if !v.IsValid() {
		sb.WriteString("nil")
		return
	}
	if depth > 40 {
		sb.WriteString("<deep>")
		return
	}
	t := v.Type()
	if t == timeType {
		if v.CanInterface() {
			tm := v.Interface().(time.Time)
			if tm.IsZero() {
				sb.WriteString("T0")
			} else {
				sb.WriteString("T" + strconv.FormatInt(tm.UnixNano(), 10))
			}
		} else {
			// unexported time field: wall/ext raw
			sb.WriteString(fmt.Sprintf("Traw(%d,%d)", v.Field(0).Uint(), v.Field(1).Int()))
		}
		return
	}
	if v.Kind() == reflect.Ptr && !v.IsNil() && t.Implements(protoType) && v.CanInterface() {
		m := v.Interface().(proto.Message)
		b, err := prototext.MarshalOptions{Multiline: false}.Marshal(m)
		if err != nil {
			sb.WriteString("proto-err:" + err.Error())
		} else {
			// prototext output is deliberately unstable in whitespace only
			sb.WriteString("pb{" + strings.Join(strings.Fields(string(b)), " ") + "}")
		}
		return
	}
	switch v.Kind() {
	case reflect.Bool:
		sb.WriteString(strconv.FormatBool(v.Bool()))
	case reflect.Int, reflect.Int8, reflect.Int16, reflect.Int32, reflect.Int64:
		sb.WriteString(strconv.FormatInt(v.Int(), 10))
	case reflect.Uint, reflect.Uint8, reflect.Uint16, reflect.Uint32, reflect.Uint64, reflect.Uintptr:
		sb.WriteString(strconv.FormatUint(v.Uint(), 10))
	case reflect.Float32, reflect.Float64:
		sb.WriteString(strconv.FormatFloat(v.Float(), 'g', -1, 64))
	case reflect.Complex64, reflect.Complex128:
		sb.WriteString(fmt.Sprint(v.Complex()))
	case reflect.String:
		sb.WriteString(strconv.Quote(v.String()))
	case reflect.Ptr:
		if v.IsNil() {
			sb.WriteString("nil")
			return
		}
		sb.WriteString("&")
		c.enc(sb, v.Elem(), depth+1)
	case reflect.Interface:
		if v.IsNil() {
			sb.WriteString("nil")
			return
		}
		e := v.Elem()
		if e.Type().Implements(errType) && e.CanInterface() {
			sb.WriteString("err(" + strconv.Quote(e.Interface().(error).Error()) + ")")
			return
		}
		sb.WriteString("(" + e.Type().String() + ")")
		c.enc(sb, e, depth+1)
	case reflect.Slice, reflect.Array:
		if v.Kind() == reflect.Slice && v.IsNil() {
			sb.WriteString("[]")
			return
		}
		if t.Elem().Kind() == reflect.Uint8 {
			sb.WriteString("x\"")
			for i := 0; i < v.Len(); i++ {
				sb.WriteString(fmt.Sprintf("%02x", v.Index(i).Uint()))
			}
			sb.WriteString("\"")
			return
		}
		if c.sortSlices && v.Kind() == reflect.Slice {
			parts := make([]string, v.Len())
			for i := range parts {
				var pb strings.Builder
				c.enc(&pb, v.Index(i), depth+1)
				parts[i] = pb.String()
			}
			sort.Strings(parts)
			sb.WriteString("{|" + strings.Join(parts, ",") + "|}")
			return
		}
		sb.WriteString("[")
		for i := 0; i < v.Len(); i++ {
			if i > 0 {
				sb.WriteString(",")
			}
			c.enc(sb, v.Index(i), depth+1)
		}
		sb.WriteString("]")
	case reflect.Map:
		if v.Len() == 0 { // nil and empty maps are the same thing after a msgpack round trip
			sb.WriteString("{}")
			return
		}
		type kv struct{ k, v string }
		var kvs []kv
		it := v.MapRange()
		for it.Next() {
			var kb, vb strings.Builder
			c.enc(&kb, it.Key(), depth+1)
			c.enc(&vb, it.Value(), depth+1)
			kvs = append(kvs, kv{kb.String(), vb.String()})
		}
		sort.Slice(kvs, func(i, j int) bool { return kvs[i].k < kvs[j].k })
		sb.WriteString("{")
		for i, e := range kvs {
			if i > 0 {
				sb.WriteString(",")
			}
			sb.WriteString(e.k + ":" + e.v)
		}
		sb.WriteString("}")
	case reflect.Struct:
		sb.WriteString(t.Name() + "{")
		first := true
		for i := 0; i < t.NumField(); i++ {
			f := t.Field(i)
			fv := v.Field(i)
			switch fv.Kind() {
			case reflect.Chan, reflect.Func, reflect.UnsafePointer:
				continue
			}
			if strings.HasPrefix(f.Type.String(), "sync.") || strings.HasPrefix(f.Type.String(), "protoimpl.") {
				continue
			}
			if !first {
				sb.WriteString(",")
			}
			first = false
			sb.WriteString(f.Name + ":")
			if c.skip[f.Name] || c.maskIdx[t.Name()+"."+f.Name] {
				sb.WriteString("_")
				continue
			}
			c.enc(sb, fv, depth+1)
		}
		sb.WriteString("}")
	case reflect.Chan, reflect.Func, reflect.UnsafePointer:
		sb.WriteString("_")
	default:
		sb.WriteString("?" + v.Kind().String())
	}
}
