//go:build verif

// Package simkit is the world-independent part of the deterministic simulator:
// seeded run derivation, plans, run statistics / probes, the event-log digest
// used to prove determinism, the delta-debugging shrinker and the worker loop.
//
// Rules every world obeys:
//   - a run is a pure function of (plan, code): Generate draws from the PRNG it
//     is handed and returns a JSON-serialisable plan; Execute never consults a
//     PRNG, a real clock, or Go map iteration order for any decision;
//   - logging (Run.Eventf) never draws randomness and never reads a clock.
package simkit

import (
	"encoding/json"
	"fmt"
	"hash/fnv"
	"math/rand/v2"
	"os"
	"path/filepath"
	"runtime/debug"
	"sort"
	"strings"
	"testing"
	"testing/synctest"
	"time"
)

// Violation is what an oracle reports. Class+Invariant identify the violation
// for shrinking (a shrunk plan must fail the same way) and for known findings.
type Violation struct {
	Property  string `json:"property"`
	Class     string `json:"class"`
	Invariant string `json:"invariant"`
	Step      int    `json:"step"`
	Culprit   string `json:"culprit,omitempty"`
	Detail    string `json:"detail"`
}

func (v *Violation) Key() string { return v.Class + "/" + v.Invariant }

func (v *Violation) String() string {
	return fmt.Sprintf("%s %s/%s at step %d (%s): %s", v.Property, v.Class, v.Invariant, v.Step, v.Culprit, v.Detail)
}

// Plan is an explicit, finite, JSON-serialisable schedule of client operations,
// simulator actions and faults.
type Plan interface {
	NumSteps() int
	// Keep returns a copy of the plan with only the steps whose keep flag is set.
	Keep(keep []bool) Plan
	// Simplify returns candidate plans that are each "one notch simpler" than
	// the receiver without changing the number of steps. May return nil.
	Simplify() []Plan
}

// World wires real consul components behind simulator-owned seams.
type World interface {
	Generate(rng *rand.Rand, tier string, runIdx uint64) Plan
	Decode(raw []byte) (Plan, error)
	// Execute runs the plan; it must recover panics of the system under test
	// that it wants to classify. The returned violation is nil when every
	// oracle held.
	Execute(t *testing.T, p Plan, r *Run) *Violation
}

// Narrower is optionally implemented by worlds whose plans enumerate a fault
// space internally: it turns (plan, violation) into an explicit plan that
// contains only the failing fault, before shrinking.
type Narrower interface {
	Narrow(p Plan, v *Violation) Plan
}

// Run collects what one execution did: the event log digest, probes, fault
// counters, simulated time and the abstract-state signature.
type Run struct {
	Steps      int
	SimNanos   int64
	Counters   map[string]int64
	logHash    uint64
	sigHash    uint64
	Verbose    bool
	Log        []string
	Nontrivial bool
	// MapOrdered: the system under test walked a Go map and a fault stopped the walk part way,
	// so how much had been done before the fault (and everything after it) is decided by the
	// runtime's map iteration order, which the simulator does not own. Such a run is excluded
	// from the determinism canary; a violation found in one is replayed until it reproduces.
	MapOrdered bool
}

func NewRun(verbose bool) *Run {
	return &Run{Counters: map[string]int64{}, logHash: 14695981039346656037, sigHash: 14695981039346656037, Verbose: verbose}
}

func mix(h uint64, s string) uint64 {
	for i := 0; i < len(s); i++ {
		h ^= uint64(s[i])
		h *= 1099511628211
	}
	h ^= 0xff
	h *= 1099511628211
	return h
}

// Eventf appends to the event log (digest always; text only when verbose).
func (r *Run) Eventf(format string, args ...any) {
	s := fmt.Sprintf(format, args...)
	r.logHash = mix(r.logHash, s)
	if r.Verbose {
		r.Log = append(r.Log, s)
	}
}

// Sig feeds the schedule signature: the ordered sequence of abstracted events
// (kinds and outcomes, not values). Distinct signatures = distinct interleavings.
func (r *Run) Sig(s string) { r.sigHash = mix(r.sigHash, s) }

// SigSet feeds the signature order-insensitively (for events whose relative order the system
// under test decides by map iteration or a multi-way select).
func (r *Run) SigSet(s string) { r.sigHash += mix(14695981039346656037, s) * 0x9e3779b97f4a7c15 }

func (r *Run) Hit(name string)            { r.Counters[name]++ }
func (r *Run) Add(name string, n int64)   { r.Counters[name] += n }
func (r *Run) Digest() string             { return fmt.Sprintf("%016x", r.logHash) }
func (r *Run) Signature() uint64          { return r.sigHash }
func (r *Run) AdvanceSim(d time.Duration) { r.SimNanos += int64(d) }

// ---------------------------------------------------------------------------

func SplitMix64(x uint64) uint64 {
	x += 0x9e3779b97f4a7c15
	z := x
	z = (z ^ (z >> 30)) * 0xbf58476d1ce4e5b9
	z = (z ^ (z >> 27)) * 0x94d049bb133111eb
	return z ^ (z >> 31)
}

func RunSeed(seed uint64, prop string, runIdx uint64) uint64 {
	h := fnv.New64a()
	h.Write([]byte(prop))
	return SplitMix64(SplitMix64(seed^h.Sum64()) + runIdx)
}

func NewRNG(s uint64) *rand.Rand { return rand.New(rand.NewPCG(s, SplitMix64(s))) }

// ---------------------------------------------------------------------------

type Options struct {
	Property     string
	Tier         string
	Seed         uint64
	Worker       int
	Workers      int
	Budget       time.Duration
	MaxRuns      uint64
	OutFile      string
	ReplayDir    string
	ShrinkBudget time.Duration
	Canary       int // run the first N runs twice and compare digests
	// CrashFile: the plan about to be executed is written here first, so that a fatal runtime
	// error (stack overflow, concurrent map write, deadlock) that kills the worker leaves its input behind.
	CrashFile string
}

type ReplayFile struct {
	Property  string          `json:"property"`
	Seed      uint64          `json:"seed"`
	RunIdx    uint64          `json:"run_index"`
	Violation *Violation      `json:"violation"`
	Digest    string          `json:"event_log_digest"`
	Repo      string          `json:"repo"`
	OrigSteps int             `json:"original_steps"`
	Plan      json.RawMessage `json:"plan"`
	Log       []string        `json:"event_log,omitempty"`
}

type WorkerResult struct {
	Property      string            `json:"property"`
	Worker        int               `json:"worker"`
	Runs          uint64            `json:"runs"`
	Steps         int64             `json:"steps"`
	SimSeconds    float64           `json:"sim_seconds"`
	Counters      map[string]int64  `json:"counters"`
	Sigs          []string          `json:"nontrivial_sigs"`
	Samples       []json.RawMessage `json:"samples"`
	Violation     *Violation        `json:"violation,omitempty"`
	Replay        string            `json:"replay,omitempty"`
	WallSeconds   float64           `json:"wall_s"`
	CanaryRuns    int               `json:"canary_runs"`
	CanarySkipped int               `json:"canary_skipped_map_ordered,omitempty"`
	CanaryBad     []string          `json:"canary_mismatch,omitempty"`
	HarnessErr    string            `json:"harness_error,omitempty"`
}

// SafeExecute runs w.Execute converting a panic that escapes the world into a
// violation of class "panic" (worlds normally classify panics themselves).
func SafeExecute(t *testing.T, w World, p Plan, r *Run, prop string) (v *Violation) {
	defer func() {
		if e := recover(); e != nil {
			v = &Violation{Property: prop, Class: "harness-panic", Invariant: "no-escaped-panic", Step: r.Steps,
				Detail: fmt.Sprintf("%v\n%s", e, trimStack(debug.Stack()))}
		}
	}()
	v = w.Execute(t, p, r)
	if v != nil && v.Property == "" {
		v.Property = prop
	}
	return v
}

func trimStack(b []byte) string {
	s := string(b)
	if len(s) > 6000 {
		s = s[:6000]
	}
	return s
}

// Search is the worker loop: run indices worker, worker+workers, ... until the
// wall budget or MaxRuns is reached or a violation is found (then shrink, write
// the replay file, stop).
func Search(t *testing.T, w World, o Options) *WorkerResult {
	start := time.Now() // real clock: budget only, never influences a run
	res := &WorkerResult{Property: o.Property, Worker: o.Worker, Counters: map[string]int64{}}
	sigs := map[uint64]struct{}{}
	if o.Workers <= 0 {
		o.Workers = 1
	}
	// determinism canary
	for i := 0; i < o.Canary; i++ {
		idx := uint64(o.Worker) + uint64(i)*uint64(o.Workers)
		p := w.Generate(NewRNG(RunSeed(o.Seed, o.Property, idx)), o.Tier, idx)
		r1, r2 := NewRun(false), NewRun(false)
		v1 := SafeExecute(t, w, p, r1, o.Property)
		// second execution from the JSON round trip of the plan, as replay does
		raw, _ := json.Marshal(p)
		p2, err := w.Decode(raw)
		if err != nil {
			res.HarnessErr = "plan does not round-trip through JSON: " + err.Error()
			break
		}
		v2 := SafeExecute(t, w, p2, r2, o.Property)
		if r1.MapOrdered || r2.MapOrdered {
			res.CanarySkipped++
			continue
		}
		res.CanaryRuns++
		if r1.Digest() != r2.Digest() || (v1 == nil) != (v2 == nil) {
			res.CanaryBad = append(res.CanaryBad, fmt.Sprintf("run %d: %s vs %s", idx, r1.Digest(), r2.Digest()))
		}
	}
	for n := uint64(0); ; n++ {
		if o.MaxRuns > 0 && n >= o.MaxRuns {
			break
		}
		// (every worker completes at least one run: on an overloaded machine the canary alone can use up the budget)
		if o.Budget > 0 && n > 0 && time.Since(start) > o.Budget {
			break
		}
		idx := uint64(o.Worker) + n*uint64(o.Workers)
		seed := RunSeed(o.Seed, o.Property, idx)
		p := w.Generate(NewRNG(seed), o.Tier, idx)
		if o.CrashFile != "" {
			raw, _ := json.Marshal(p)
			rf := ReplayFile{Property: o.Property, Seed: o.Seed, RunIdx: idx, Plan: raw, OrigSteps: p.NumSteps(),
				Violation: &Violation{Property: o.Property, Class: "crash", Invariant: "process-survives", Detail: "the worker process died while executing this plan"}}
			b, _ := json.Marshal(rf)
			os.WriteFile(o.CrashFile, b, 0o644)
		}
		r := NewRun(false)
		v := SafeExecute(t, w, p, r, o.Property)
		res.Runs++
		res.Steps += int64(r.Steps)
		res.SimSeconds += float64(r.SimNanos) / 1e9
		for k, c := range r.Counters {
			res.Counters[k] += c
		}
		if r.Nontrivial {
			sigs[r.Signature()] = struct{}{}
		}
		if len(res.Samples) < 2 && r.Nontrivial {
			raw, _ := json.Marshal(p)
			if len(raw) < 20000 {
				res.Samples = append(res.Samples, raw)
			}
		}
		if v != nil {
			res.Violation = v
			res.Replay = shrinkAndWrite(t, w, p, v, o, idx)
			break
		}
	}
	for s := range sigs {
		res.Sigs = append(res.Sigs, fmt.Sprintf("%016x", s))
	}
	sort.Strings(res.Sigs)
	res.WallSeconds = time.Since(start).Seconds()
	if o.OutFile != "" {
		b, _ := json.Marshal(res)
		os.MkdirAll(filepath.Dir(o.OutFile), 0o755)
		os.WriteFile(o.OutFile, b, 0o644)
	}
	return res
}

func shrinkAndWrite(t *testing.T, w World, p Plan, v *Violation, o Options, idx uint64) string {
	orig := p.NumSteps()
	deadline := time.Now().Add(o.ShrinkBudget)
	fails := func(c Plan) *Violation {
		r := NewRun(false)
		cv := SafeExecute(t, w, c, r, o.Property)
		if cv != nil && cv.Key() == v.Key() {
			return cv
		}
		return nil
	}
	if nw, ok := w.(Narrower); ok {
		if np := nw.Narrow(p, v); np != nil {
			if cv := fails(np); cv != nil {
				p, v = np, cv
			}
		}
	}
	small, sv := Shrink(p, v, fails, deadline)
	r := NewRun(true)
	fv := SafeExecute(t, w, small, r, o.Property)
	if fv == nil {
		fv = sv
	}
	raw, _ := json.Marshal(small)
	rf := ReplayFile{Property: o.Property, Seed: o.Seed, RunIdx: idx, Violation: fv, Digest: r.Digest(),
		Repo: os.Getenv("VERIF_REPO_DESC"), OrigSteps: orig, Plan: raw, Log: tail(r.Log, 400)}
	dir := o.ReplayDir
	os.MkdirAll(dir, 0o755)
	path := filepath.Join(dir, fmt.Sprintf("%s-seed%d-run%d.json", o.Property, o.Seed, idx))
	b, _ := json.MarshalIndent(rf, "", " ")
	os.WriteFile(path, b, 0o644)
	return path
}

func tail(s []string, n int) []string {
	if len(s) > n {
		return s[len(s)-n:]
	}
	return s
}

// Shrink = ddmin over steps, then per-step simplification, bounded by deadline.
func Shrink(p Plan, v *Violation, fails func(Plan) *Violation, deadline time.Time) (Plan, *Violation) {
	cur, curV := p, v
	chunk := cur.NumSteps() / 2
	if chunk < 1 {
		chunk = 1
	}
	for time.Now().Before(deadline) {
		progress := false
		for start := 0; start < cur.NumSteps() && time.Now().Before(deadline); {
			n := cur.NumSteps()
			keep := make([]bool, n)
			for i := range keep {
				keep[i] = i < start || i >= start+chunk
			}
			cand := cur.Keep(keep)
			if cand.NumSteps() < n {
				if cv := fails(cand); cv != nil {
					cur, curV = cand, cv
					progress = true
					continue // same start: the next chunk slid into place
				}
			}
			start += chunk
		}
		if chunk > 1 {
			chunk /= 2
		} else if !progress {
			break
		}
	}
	for time.Now().Before(deadline) {
		improved := false
		for _, cand := range cur.Simplify() {
			if !time.Now().Before(deadline) {
				break
			}
			if cv := fails(cand); cv != nil {
				cur, curV = cand, cv
				improved = true
				break
			}
		}
		if !improved {
			break
		}
	}
	return cur, curV
}

// Replay executes a stored replay file; returns the violation found (nil if it
// no longer fails) and the run.
func Replay(t *testing.T, w World, path string, prop string) (*ReplayFile, *Violation, *Run, error) {
	b, err := os.ReadFile(path)
	if err != nil {
		return nil, nil, nil, err
	}
	var rf ReplayFile
	if err := json.Unmarshal(b, &rf); err != nil {
		return nil, nil, nil, err
	}
	p, err := w.Decode(rf.Plan)
	if err != nil {
		return &rf, nil, nil, err
	}
	r := NewRun(true)
	v := SafeExecute(t, w, p, r, prop)
	return &rf, v, r, nil
}

// ---------------------------------------------------------------------------
// small helpers shared by worlds

// Pick returns a uniformly chosen element.
func Pick[T any](rng *rand.Rand, xs []T) T { return xs[rng.IntN(len(xs))] }

// Weighted picks an index according to weights (all >= 0, not all zero).
func Weighted(rng *rand.Rand, w []int) int {
	tot := 0
	for _, x := range w {
		tot += x
	}
	if tot <= 0 {
		return 0
	}
	k := rng.IntN(tot)
	for i, x := range w {
		if k < x {
			return i
		}
		k -= x
	}
	return len(w) - 1
}

func Chance(rng *rand.Rand, pct int) bool { return rng.IntN(100) < pct }

func SortedKeys[V any](m map[string]V) []string {
	ks := make([]string, 0, len(m))
	for k := range m {
		ks = append(ks, k)
	}
	sort.Strings(ks)
	return ks
}

func Trunc(s string, n int) string {
	if len(s) > n {
		return s[:n] + "…"
	}
	return s
}

func FirstDiff(a, b string) string {
	la, lb := strings.Split(a, "\n"), strings.Split(b, "\n")
	for i := 0; i < len(la) || i < len(lb); i++ {
		var x, y string
		if i < len(la) {
			x = la[i]
		}
		if i < len(lb) {
			y = lb[i]
		}
		if x != y {
			if len(x) > 600 || len(y) > 600 {
				// long lines: show the region where they part
				k := 0
				for k < len(x) && k < len(y) && x[k] == y[k] {
					k++
				}
				from := max(k-120, 0)
				return fmt.Sprintf("line %d (first %d bytes equal: %s):\n  A: ...%s\n  B: ...%s", i+1, k, Trunc(x, 160), Trunc(x[from:], 420), Trunc(y[from:], 420))
			}
			return fmt.Sprintf("line %d:\n  A: %s\n  B: %s", i+1, Trunc(x, 600), Trunc(y, 600))
		}
	}
	return "(equal)"
}

// Bubble runs f inside a testing/synctest bubble (fake clock starting at
// 2000-01-01, quiescence detection). A panic inside f's own goroutine is
// returned as err together with its stack; f must stop every goroutine it
// started before returning.
func Bubble(t *testing.T, f func()) (err error) {
	defer func() {
		if e := recover(); e != nil {
			err = fmt.Errorf("bubble: %v", e)
		}
	}()
	synctest.Test(t, func(t *testing.T) {
		defer func() {
			if e := recover(); e != nil {
				err = fmt.Errorf("panic in bubble: %v\n%s", e, trimStack(debug.Stack()))
			}
		}()
		f()
	})
	return err
}
