//go:build verif

// Package cmd is the single entry point of the simulator test binary.
//
//	verifsim.test -test.run '^TestVerif$' -verif.prop C20 -verif.worker 0 -verif.workers 16 ...
//	verifsim.test -test.run '^TestVerif$' -verif.prop C20 -verif.replay file.json
package cmd

import (
	"encoding/json"
	"flag"
	"fmt"
	"os"
	"testing"
	"time"

	"github.com/hashicorp/consul/internal/verifsim/simkit"
)

var (
	fProp    = flag.String("verif.prop", "", "property id")
	fTier    = flag.String("verif.tier", "quick", "quick|thorough")
	fSeed    = flag.Uint64("verif.seed", 1, "VERIF_SEED")
	fWorker  = flag.Int("verif.worker", 0, "worker index")
	fWorkers = flag.Int("verif.workers", 1, "worker count")
	fBudget  = flag.Duration("verif.budget", 10*time.Second, "wall budget of the search")
	fMaxRuns = flag.Uint64("verif.maxruns", 0, "stop after this many runs (0 = budget only)")
	fOut     = flag.String("verif.out", "", "worker result file")
	fReplay  = flag.String("verif.replay", "", "replay file to execute")
	fRepDir  = flag.String("verif.replaydir", "/verif/replays", "where replay files are written")
	fShrink  = flag.Duration("verif.shrink", 60*time.Second, "shrink budget")
	fCanary  = flag.Int("verif.canary", 0, "determinism canary: execute the first N runs twice")
	fDigests = flag.Int("verif.digests", 0, "print event-log digests of the first N runs and exit")
	fCrash   = flag.String("verif.crashfile", "", "file that always holds the plan being executed")
)

func TestVerif(t *testing.T) {
	if *fProp == "" {
		t.Skip("no -verif.prop")
	}
	w, ok := registry[*fProp]
	if !ok {
		fmt.Printf("HARNESS-ERROR unknown property %s\n", *fProp)
		os.Exit(2)
	}
	if *fDigests > 0 {
		for i := 0; i < *fDigests; i++ {
			idx := uint64(i)
			p := w.Generate(simkit.NewRNG(simkit.RunSeed(*fSeed, *fProp, idx)), *fTier, idx)
			r := simkit.NewRun(os.Getenv("VERIF_DUMPLOG") != "")
			v := simkit.SafeExecute(t, w, p, r, *fProp)
			d := r.Digest()
			if r.MapOrdered {
				d = "map-ordered"
			}
			fmt.Printf("DIGEST run=%d %s steps=%d viol=%v\n", idx, d, r.Steps, v != nil)
			for _, l := range r.Log {
				fmt.Printf("  %d| %s\n", idx, l)
			}
		}
		return
	}
	if *fReplay != "" {
		rf, v, r, err := simkit.Replay(t, w, *fReplay, *fProp)
		if err != nil {
			fmt.Printf("HARNESS-ERROR replay: %v\n", err)
			os.Exit(2)
		}
		for _, l := range r.Log {
			fmt.Println("  |", l)
		}
		out := map[string]any{"digest": r.Digest(), "recorded_digest": rf.Digest, "violation": v, "recorded": rf.Violation}
		b, _ := json.Marshal(out)
		fmt.Printf("REPLAY-RESULT %s\n", b)
		if v != nil {
			fmt.Printf("REPLAY-VIOLATION %s\n", v.String())
		}
		return
	}
	res := simkit.Search(t, w, simkit.Options{Property: *fProp, Tier: *fTier, Seed: *fSeed, Worker: *fWorker,
		Workers: *fWorkers, Budget: *fBudget, MaxRuns: *fMaxRuns, OutFile: *fOut, ReplayDir: *fRepDir,
		ShrinkBudget: *fShrink, Canary: *fCanary, CrashFile: *fCrash})
	if res.Violation != nil {
		fmt.Printf("WORKER-VIOLATION %s replay=%s\n", res.Violation.String(), res.Replay)
	}
}
