//go:build verif

package cmd

import (
	"github.com/hashicorp/consul/internal/verifsim/archiveworld"
	"github.com/hashicorp/consul/internal/verifsim/simkit"
)

var registry = map[string]simkit.World{
	"C20": archiveworld.World{},
}
