//go:build verif

package cmd

import (
	"github.com/hashicorp/consul/internal/verifsim/archiveworld"
	"github.com/hashicorp/consul/internal/verifsim/fsmworld"
	"github.com/hashicorp/consul/internal/verifsim/resourceworld"
	"github.com/hashicorp/consul/internal/verifsim/simkit"
)

var registry = map[string]simkit.World{
	"C01": fsmworld.C01{},
	"C02": fsmworld.C02{},
	"C03": fsmworld.C03{},
	"C04": fsmworld.C04{},
	"C05": fsmworld.C05{},
	"C06": fsmworld.C06{},
	"C07": fsmworld.C07{},
	"C08": fsmworld.ACLWorld{Prop: "C08"},
	"C09": fsmworld.ACLWorld{Prop: "C09"},
	"C10": fsmworld.C10{},
	"C11": fsmworld.C11{},
	"C12": fsmworld.C12{},
	"C13": fsmworld.C13{},
	"C15": fsmworld.C15{},
	"C16": fsmworld.C16{},
	"C17": fsmworld.C17{},
	"C18": resourceworld.World{},
	"C19": fsmworld.C19{},
	"C20": archiveworld.World{},
}
