#!/usr/bin/env python3
"""Regenerates the tables of DESIGN.md that are derived from data files:
known_findings.json (fixes and known findings) and seeded/*/meta.json + seeded/results.jsonl (seeded changes)."""
import json, os, glob, re
V = "/verif"
kf = json.load(open(f"{V}/known_findings.json"))["findings"]

def esc(s): return s.replace("|", "\\|").replace("\n", " ")

out = []
out.append("### Genuine defects repaired (`fix:` commits in /repo, each with a canary replayed by every run of its check)\n")
out.append("| property | finding id | commit | what failed |")
out.append("|---|---|---|---|")
for f in kf:
    if f["status"] == "fixed":
        also = ("+" + ",".join(f["also"])) if f.get("also") else ""
        out.append(f"| {f['property']}{also} | `{f['id']}` | `{f.get('commit','')}` | {esc(f['what'])} |")
out.append("")
out.append("### Known findings (genuine, not repaired; reported as `KNOWN-FINDING:` lines, exit 0)\n")
out.append("| property | finding id | what fails | why it is not repaired here |")
out.append("|---|---|---|---|")
for f in kf:
    if f["status"] == "known":
        also = ("+" + ",".join(f["also"])) if f.get("also") else ""
        out.append(f"| {f['property']}{also} | `{f['id']}` | {esc(f['what'])} | {esc(f.get('why_not_fixed',''))} |")
out.append("")

# seeded changes
runs = [json.loads(l) for l in open(f"{V}/seeded/results.jsonl") if l.strip()]
out.append("## 16. Seeded property-breaking changes and which checks catch them\n")
out.append("Each change was written by a fresh sub-agent that was given only the text of one property and a scratch worktree (prompt: `seeded/PROMPT.tmpl`), with a demonstration test that fails with the change and passes without it; each was confirmed in a scratch worktree (`bin/mutconfirm`: demo passes on the clean tree, fails with the patch, the touched packages' existing tests pass with the patch) and then run against the quick check (`bin/mutcheck`: `git apply` to /repo, check, `git checkout -- .`). 'first run' is the verdict of the check as it was when the change arrived; a MISSED there led to the strengthening named in `seeded/<id>/meta.json` (`check_runs`) and in section 13/14; 'final' is the verdict of the committed check. None of the changes is committed to /repo. Ids -a/-b are waves 1-2, -c/-d wave 3, -g/-h wave 5 (confirmed and checked with `bin/mutpar`, the parallel form of the same procedure in scratch worktrees; a change that lives in another property's territory was also run against that property's check, shown in brackets); the patch files of wave 4 (-e/-f) were lost with the scratch area and only their verdicts remain in `seeded/results.jsonl` (section 17). `seeded/<id>/meta.json` carries a `judgement` where a change is invalid, unreachable or a repeat of an earlier one.\n")
out.append("| change | file(s) changed | what it breaks | first run | final | detecting invariant |")
out.append("|---|---|---|---|---|---|")
for d in sorted(glob.glob(f"{V}/seeded/C*/")):
    mid = os.path.basename(d.rstrip("/"))
    try:
        meta = json.load(open(d + "meta.json"))
    except Exception:
        continue
    patch = open(d + "patch.diff").read()
    files = sorted(set(re.findall(r"^\+\+\+ b/(\S+)", patch, re.M)))
    rr = [r for r in runs if r["mutation"] == mid]
    first = rr[0]["verdict"] if rr else "-"
    last = rr[-1]["verdict"] if rr else "-"
    inv = ""
    for r in reversed(rr):
        for l in r.get("lines", []):
            m = re.match(r"violation: (\S+)", l)
            if m:
                inv = m.group(1); break
        if inv: break
    props = ",".join(sorted({r["property"] for r in rr}))
    summary = esc(meta.get("summary", ""))[:260]
    out.append(f"| {mid} ({props}) | {', '.join(files)} | {summary} | {first} | {last} | `{inv}` |")
out.append("")
text = "\n".join(out)
p = f"{V}/DESIGN.md"
s = open(p).read()
B, E = "<!-- BEGIN GENERATED TABLES (bin/gendesign.py) -->", "<!-- END GENERATED TABLES -->"
if B in s:
    s = s[:s.index(B) + len(B)] + "\n" + text + "\n" + s[s.index(E):]
    open(p, "w").write(s)
    print("tables regenerated")
else:
    print(text)
