#!/usr/bin/env python3
"""Build the verifsim test binary from /repo's *current working tree*.

The harness sources live in /verif (sim/, shims/); they are compiled as virtual
packages of the consul module with `go test -c -overlay -modfile`, so /repo is
never written to.  See DESIGN.md section 3.

Exit code 2 (BuildError) means harness/build trouble, never a property verdict.
"""
import fcntl
import hashlib
import json
import os
import re
import shutil
import subprocess
import sys
import time

VERIF = os.path.dirname(os.path.dirname(os.path.abspath(__file__)))
REPO = os.environ.get("VERIF_REPO", "/repo")
BUILD = os.path.join(VERIF, "build")
GO_CANDIDATES = [
    "/root/go/pkg/mod/golang.org/toolchain@v0.0.1-go1.26.6.linux-amd64/bin/go",
    "/opt/veriftools/go1.26.8/bin/go",
    "/usr/local/bin/go1.26.8",
]


class BuildError(Exception):
    pass


def go_bin():
    for c in GO_CANDIDATES:
        if os.path.exists(c):
            return c
    raise BuildError("no go >= 1.26 toolchain found")


def go_env():
    env = dict(os.environ)
    env.update(
        GOFLAGS="-mod=mod",
        GOPROXY="off",
        GOSUMDB="off",
        GOTOOLCHAIN="local",
        CGO_ENABLED="0",
    )
    env.setdefault("GOCACHE", "/root/.cache/go-build")
    return env


# --------------------------------------------------------------------------
# entry hooks: text patches of the *current* file, located by function header.
# Each inserts ONE guarded line directly after the function's opening line.
ENTRY_HOOKS = [
    dict(
        file="agent/consul/rpc.go",
        header=r"^func \(s \*Server\) raftApplyEncoded\(t structs\.MessageType, buf \[\]byte\) \(any, error\) \{\s*$",
        insert="\tif h := verifHooksFor(s); h != nil && h.RaftApply != nil {\n\t\treturn h.RaftApply(t, buf)\n\t}\n",
    ),
    dict(
        file="agent/consul/server.go",
        header=r"^func \(s \*Server\) IsLeader\(\) bool \{\s*$",
        insert="\tif h := verifHooksFor(s); h != nil && h.IsLeader != nil {\n\t\treturn h.IsLeader()\n\t}\n",
    ),
    dict(
        file="agent/consul/server.go",
        header=r"^func \(s \*Server\) RPC\(ctx context\.Context, method string, args interface\{\}, reply interface\{\}\) error \{\s*$",
        insert="\tif h := verifHooksFor(s); h != nil && h.RPC != nil {\n\t\treturn h.RPC(ctx, method, args, reply)\n\t}\n",
    ),
]


def gen_entry_hooks(overlay):
    outdir = os.path.join(BUILD, "patched")
    os.makedirs(outdir, exist_ok=True)
    texts = {}
    for h in ENTRY_HOOKS:
        src = os.path.join(REPO, h["file"])
        try:
            text = texts.get(src) or open(src).read()
        except OSError as e:
            raise BuildError(f"entry hook: cannot read {src}: {e}")
        lines = text.split("\n")
        rx = re.compile(h["header"])
        hits = [i for i, l in enumerate(lines) if rx.match(l)]
        if len(hits) != 1:
            raise BuildError(
                f"entry hook site not found exactly once in {h['file']} (hits={len(hits)})"
            )
        i = hits[0]
        lines.insert(i + 1, h["insert"].rstrip("\n"))
        out = os.path.join(outdir, h["file"].replace("/", "__"))
        texts[src] = "\n".join(lines)
        write_if_changed(out, texts[src])
        overlay[src] = out


# --------------------------------------------------------------------------
# yield points: text substitutions in the *current* file that hand control to the
# simulator's scheduler inside an operation (off unless a world installs VerifYield).
# A substitution with min=0 may legitimately find nothing (the code under test may
# have dropped the lock); the insertions the schedule search depends on have min>0.
YIELD_PATCHES = [
    dict(
        file="internal/storage/inmem/store.go",
        subs=[
            (r"^(\s*)s\.eventLock\.Lock\(\)\s*$", r"\1verifLock(&s.eventLock)", 0),
            (r"^(\s*)tx\.Commit\(\)\s*$", r'\1tx.Commit()\n\1verifYield("committed")', 2),
        ],
    ),
    dict(
        file="internal/storage/inmem/snapshot.go",
        subs=[
            (r"^(\s*)r\.s\.eventLock\.Lock\(\)\s*$", r"\1verifLock(&r.s.eventLock)", 0),
        ],
    ),
]


def gen_yield_patches(overlay):
    outdir = os.path.join(BUILD, "patched")
    os.makedirs(outdir, exist_ok=True)
    for h in YIELD_PATCHES:
        src = os.path.join(REPO, h["file"])
        try:
            text = open(src).read()
        except OSError as e:
            raise BuildError(f"yield patch: cannot read {src}: {e}")
        for rx, repl, minimum in h["subs"]:
            text, n = re.subn(rx, repl, text, flags=re.M)
            if n < minimum:
                raise BuildError(f"yield patch site {rx!r} found {n} times in {h['file']} (need {minimum})")
        out = os.path.join(outdir, h["file"].replace("/", "__"))
        write_if_changed(out, text)
        overlay[src] = out


def write_if_changed(path, content):
    try:
        if open(path).read() == content:
            return
    except OSError:
        pass
    os.makedirs(os.path.dirname(path), exist_ok=True)
    with open(path, "w") as f:
        f.write(content)


def gen_modfile():
    gomod = open(os.path.join(REPO, "go.mod")).read()
    gomod = re.sub(r"=> \./(\S+)", lambda m: f"=> {REPO}/{m.group(1)}", gomod)
    gomod += "\nrequire github.com/anishathalye/porcupine v1.3.0\n"
    write_if_changed(os.path.join(BUILD, "go.mod"), gomod)
    gosum = open(os.path.join(REPO, "go.sum")).read()
    extra = open(os.path.join(VERIF, "bin", "extra.go.sum")).read()
    write_if_changed(os.path.join(BUILD, "go.sum"), gosum + extra)


def gen_overlay():
    overlay = {}
    simroot = os.path.join(VERIF, "sim")
    for d, _, files in os.walk(simroot):
        for f in files:
            if not f.endswith(".go"):
                continue
            rel = os.path.relpath(os.path.join(d, f), simroot)
            overlay[os.path.join(REPO, "internal", "verifsim", rel)] = os.path.join(d, f)
    shimroot = os.path.join(VERIF, "shims")
    for f in sorted(os.listdir(shimroot)):
        if not f.endswith(".go"):
            continue
        p = os.path.join(shimroot, f)
        head = open(p).read(400)
        m = re.search(r"verif:target\s+(\S+)", head)
        if not m:
            raise BuildError(f"shim {f} lacks a 'verif:target <pkgdir>' line")
        tgt = os.path.join(REPO, m.group(1))
        if not os.path.isdir(tgt):
            raise BuildError(f"shim target dir missing: {tgt}")
        overlay[os.path.join(tgt, "zz_verif_" + f)] = p
    gen_entry_hooks(overlay)
    gen_yield_patches(overlay)
    write_if_changed(
        os.path.join(BUILD, "overlay.json"),
        json.dumps({"Replace": overlay}, indent=1, sort_keys=True),
    )


def build(log=sys.stderr, binary="verifsim.test", pkg="./internal/verifsim/cmd", tags="verif"):
    """Regenerate modfile/overlay and (re)build the test binary. Returns its path."""
    os.makedirs(BUILD, exist_ok=True)
    lock = open(os.path.join(BUILD, ".lock"), "w")
    fcntl.flock(lock, fcntl.LOCK_EX)
    try:
        t0 = time.time()
        gen_modfile()
        gen_overlay()
        out = os.path.join(BUILD, binary)
        cmd = [
            go_bin(), "test", "-c", "-vet=off", "-tags", tags,
            "-modfile=" + os.path.join(BUILD, "go.mod"),
            "-overlay=" + os.path.join(BUILD, "overlay.json"),
            "-o", out, pkg,
        ]
        r = subprocess.run(cmd, cwd=REPO, env=go_env(), stdout=subprocess.PIPE,
                           stderr=subprocess.STDOUT, text=True)
        if r.returncode != 0:
            log.write(r.stdout)
            raise BuildError("go test -c failed")
        log.write(f"[build] ok in {time.time()-t0:.1f}s -> {out}\n")
        return out
    finally:
        fcntl.flock(lock, fcntl.LOCK_UN)
        lock.close()


def repo_describe():
    try:
        head = subprocess.run(["git", "-C", REPO, "rev-parse", "--short", "HEAD"],
                              stdout=subprocess.PIPE, text=True).stdout.strip()
        diff = subprocess.run(["git", "-C", REPO, "diff", "HEAD"], stdout=subprocess.PIPE).stdout
        if diff:
            head += "+dirty:" + hashlib.sha1(diff).hexdigest()[:8]
        return head
    except Exception:
        return "unknown"


if __name__ == "__main__":
    try:
        print(build())
    except BuildError as e:
        print("BUILD-ERROR:", e, file=sys.stderr)
        sys.exit(2)
